//! Hand-written decoders: libFuzzer bytes -> structured cases of the generated parts
//! (arbitrary::Unstructured as data provider; no derive).  When the input is exhausted every
//! draw yields the lowest value, so decoding always terminates.
//!
//! (proptest's pass-through RNG cannot serve here: every `prop_oneof!` forks the RNG for its
//! lazily evaluated alternatives, each fork halves the remaining bytes, and once exhausted the
//! all-zero stream makes rand's unbiased range sampling loop forever.)

use crate::common::*;
use crate::props::{c03, c05, c08, c09, c16, c17, c18, sender};
use arbitrary::Unstructured;

pub struct D<'a>(pub Unstructured<'a>);

impl<'a> D<'a> {
    pub fn new(data: &'a [u8]) -> Self {
        D(Unstructured::new(data))
    }
    pub fn u8(&mut self) -> u8 {
        self.0.arbitrary().unwrap_or(0)
    }
    pub fn u16(&mut self) -> u16 {
        self.0.arbitrary().unwrap_or(0)
    }
    pub fn u32(&mut self) -> u32 {
        self.0.arbitrary().unwrap_or(0)
    }
    pub fn bool(&mut self) -> bool {
        self.u8() & 1 == 1
    }
    /// inclusive range
    pub fn range(&mut self, lo: u32, hi: u32) -> u32 {
        self.0.int_in_range(lo..=hi).unwrap_or(lo)
    }
    pub fn irange(&mut self, lo: i32, hi: i32) -> i32 {
        self.0.int_in_range(lo..=hi).unwrap_or(lo)
    }
    pub fn pick(&mut self, n: usize) -> usize {
        self.range(0, n as u32 - 1) as usize
    }
    pub fn empty(&self) -> bool {
        self.0.is_empty()
    }
    pub fn bytes(&mut self, max: usize) -> Vec<u8> {
        let n = self.range(0, max as u32) as usize;
        (0..n).map(|_| self.u8()).collect()
    }
    pub fn vec<T>(&mut self, min: usize, max: usize, mut f: impl FnMut(&mut Self) -> T) -> Vec<T> {
        let n = self.range(min as u32, max as u32) as usize;
        let mut v = vec![];
        for i in 0..n {
            if i >= min && self.empty() {
                break;
            }
            v.push(f(self));
        }
        v
    }
    /// length classes: small values, and values around the given limits
    pub fn len_class(&mut self, max: u32, limits: &[u32]) -> u32 {
        match self.pick(4) {
            0 => self.range(0, 64.min(max)),
            1 => self.range(0, 1500.min(max)),
            2 => {
                let l = limits[self.pick(limits.len())];
                (l as i64 + self.irange(-8, 8) as i64).clamp(0, max as i64) as u32
            }
            _ => self.range(0, max),
        }
    }
}

pub fn lab(d: &mut D, allow_zero: bool, allow_reuse: bool) -> Lab {
    match d.pick(10) {
        8 => Lab::Six(SPECIAL6[d.pick(SPECIAL6.len())]),
        9 => Lab::Three(SPECIAL3[d.pick(SPECIAL3.len())]),
        0 | 1 => Lab::Six(ALPHA6[d.pick(3)]),
        2 | 3 => Lab::Three(ALPHA3[d.pick(3)]),
        4 => {
            let mut b = [0u8; 6];
            for x in b.iter_mut() {
                *x = d.u8();
            }
            if !allow_zero && b.iter().all(|x| *x == 0) {
                b[5] = 1;
            }
            Lab::Six(b)
        }
        5 => Lab::Three([d.u8(), d.u8(), d.u8()]),
        6 => Lab::Broadcast,
        _ => {
            if allow_reuse {
                Lab::ReUse
            } else {
                Lab::Broadcast
            }
        }
    }
}

/// fragment id: small ids, any id, and the boundary ids
pub fn frag_id(d: &mut D) -> u8 {
    match d.pick(12) {
        0 | 1 => d.u8(),
        2 => 255,
        3 => [254u8, 128, 127, 64][d.pick(4)],
        _ => d.range(0, 5) as u8,
    }
}

pub fn pdu(d: &mut D, max: u32) -> Pdu {
    let len = d.len_class(max, &[4093, 4095, 4097, 65527, 65533, 65535]);
    let seed = if d.pick(8) == 0 { d.range(0, 2) } else { d.u32() | 4 };
    Pdu { len, seed }
}

pub fn bufspec(d: &mut D) -> BufSpec {
    match d.pick(8) {
        0 => BufSpec::Abs(d.range(0, 13)),
        1 => BufSpec::Abs(d.range(14, 200)),
        2 => BufSpec::Abs(d.range(200, 4097)),
        3 => BufSpec::Abs(d.range(4090, 4110)),
        4 => BufSpec::Abs(d.range(4098, 70000)),
        5 => BufSpec::FitPlus(d.irange(-8, 8)),
        6 => BufSpec::RemPlus(d.irange(-4, 8)),
        _ => BufSpec::HdrPlus(d.irange(-4, 40)),
    }
}

pub fn ptype_user(d: &mut D) -> u16 {
    match d.pick(4) {
        0 => [0x0600u16, 0x0601, 0x0800, 0x86DD, 0xFFFF][d.pick(5)],
        _ => d.range(0x0600, 0xFFFF) as u16,
    }
}

pub fn ptype_any(d: &mut D) -> u16 {
    match d.pick(4) {
        0 => d.range(0, 0xFF) as u16,
        1 => d.range(0x100, 0x5FF) as u16,
        _ => ptype_user(d),
    }
}

pub fn ext_nonfinal(d: &mut D) -> ExtSpec {
    if d.pick(4) == 0 {
        let (id, n) = MAND_NONFINAL[d.pick(MAND_NONFINAL.len())];
        ExtSpec { id, data: (0..n).map(|_| d.u8()).collect() }
    } else {
        let h = d.range(1, 5) as u16;
        let n = [0usize, 0, 2, 4, 6, 8][h as usize];
        ExtSpec { id: (h << 8) | d.u8() as u16, data: (0..n).map(|_| d.u8()).collect() }
    }
}

pub fn ext_final(d: &mut D) -> ExtSpec {
    let (id, n) = MAND_FINAL[d.pick(MAND_FINAL.len())];
    ExtSpec { id, data: (0..n).map(|_| d.u8()).collect() }
}

pub fn ext_chain(d: &mut D, with_final: bool) -> Vec<ExtSpec> {
    let mut v: Vec<ExtSpec> = (0..d.range(if with_final { 0 } else { 1 }, 3)).map(|_| ext_nonfinal(d)).collect();
    if with_final {
        v.push(ext_final(d));
    }
    v
}

pub fn reuse_cfg(d: &mut D) -> ReuseCfg {
    match d.pick(5) {
        0 | 1 => ReuseCfg::Default,
        2 => ReuseCfg::Disabled,
        3 => ReuseCfg::Enabled,
        _ => ReuseCfg::Max(d.u8()),
    }
}

pub fn mutation(d: &mut D) -> c05::Mutation {
    c05::Mutation { kind: d.range(0, 5) as u8, at: d.u16(), val: d.u8() }
}

pub fn rx_op(d: &mut D) -> c05::RxOp {
    match d.pick(10) {
        8 | 9 => {
            let with_final = d.pick(4) == 0;
            c05::RxOp::Ext { lab: lab(d, true, true), id: frag_id(d), len: d.range(0, 199) as u16, first: d.bool(), ptype: ptype_user(d), exts: ext_chain(d, with_final) }
        }
        0 => c05::RxOp::Provision(d.range(0, 3) as u8),
        1 | 2 => c05::RxOp::Complete { lab: lab(d, true, true), len: d.range(0, 300) as u16 },
        3 | 4 | 5 => c05::RxOp::Train { lab: lab(d, true, true), id: frag_id(d), len: d.range(1, 400) as u16, cut: d.range(0, 300) as u16, upto: d.range(1, 3) as u8 },
        6 => c05::RxOp::Reset,
        _ => c05::RxOp::Raw(d.bytes(40)),
    }
}

pub fn c05_rand(data: &[u8]) -> c05::RandCase {
    let mut d = D::new(data);
    let slots = if d.pick(6) == 0 { 0 } else { d.range(1, 4) as u8 };
    let pdu_size = match d.pick(3) {
        0 => 0,
        1 => d.range(1, 64) as u16,
        _ => d.range(64, 500) as u16,
    };
    let prefix = d.vec(0, 8, rx_op);
    let base = match d.pick(4) {
        0 => c05::RxOp::Raw(d.bytes(2048)),
        1 => c05::RxOp::Train { lab: lab(&mut d, true, true), id: 1, len: d.range(300, 8000) as u16, cut: 200, upto: 3 },
        _ => loop {
            let o = rx_op(&mut d);
            if !matches!(o, c05::RxOp::Provision(_) | c05::RxOp::Reset) || d.empty() {
                break o;
            }
        },
    };
    let muts = d.vec(0, 3, mutation);
    c05::RandCase { slots, pdu_size, prefix, base, muts }
}

pub fn c08_case(data: &[u8]) -> c08::Case {
    let mut d = D::new(data);
    let slots = if d.pick(6) == 0 { 0 } else { d.range(1, 4) as u8 };
    let pdu_size = match d.pick(3) {
        0 => 0,
        1 => d.range(1, 50) as u16,
        _ => d.range(50, 300) as u16,
    };
    let faults = if d.pick(3) == 0 {
        d.vec(1, 2, |d| ([MemOp::Provision, MemOp::NewPdu, MemOp::NewFrag, MemOp::TakeFrag, MemOp::SaveFrag][d.pick(5)], d.range(1, 7) as u8))
    } else {
        vec![]
    };
    let ops = d.vec(1, 40, |d| {
        let id = |d: &mut D| frag_id(d);
        let len = |d: &mut D| match d.pick(7) {
            0..=2 => d.range(0, 40) as u16,
            3..=5 => d.range(40, 200) as u16,
            _ => d.range(200, 5000) as u16,
        };
        match d.pick(20) {
            0..=3 => c08::Op::Provision(d.range(0, 2) as u8),
            4 => c08::Op::Reset,
            5 => c08::Op::NewPdu,
            6 | 7 => c08::Op::GiveBack,
            _ => {
                let p = match d.pick(18) {
                    0..=2 => c08::P::Complete { lab: lab(d, true, true), len: len(d), ext: d.range(0, 3) as u8 },
                    3..=6 => c08::P::First { lab: lab(d, true, true), id: id(d), len: len(d), cut: d.range(0, 200) as u16, ext: if d.pick(5) == 0 { d.range(1, 3) as u8 } else { 0 } },
                    7..=11 => c08::P::Cont { id: id(d), n: if d.pick(4) == 0 { d.range(60, 5000) as u16 } else { d.range(1, 60) as u16 } },
                    12 | 13 => c08::P::Inter { id: id(d), n: d.range(0, 300) as u16 },
                    14..=16 => c08::P::End { id: id(d), crc_mode: d.range(0, 1) as u8, extra: d.irange(-3, 3) as i8 },
                    _ => c08::P::Raw(d.bytes(30)),
                };
                let muts = if d.pick(6) == 0 { d.vec(1, 2, mutation) } else { vec![] };
                c08::Op::Pkt { p, muts }
            }
        }
    });
    c08::Case { slots, pdu_size, ops, faults }
}

pub fn c03_case(data: &[u8]) -> c03::Case {
    let mut d = D::new(data);
    let slots = if d.pick(6) == 0 { 0 } else { d.range(1, 4) as u8 };
    let storage_delta = match d.pick(5) {
        0 => d.irange(1, 100) as i16,
        1 => d.irange(-40, -1) as i16,
        _ => 0,
    };
    let trains = d.vec(1, 3, |d| {
        let l = lab(d, false, true);
        c03::TrainGen {
            id: if d.pick(5) == 0 { d.u8() } else { d.range(0, 3) as u8 },
            lab: l,
            ptype: ptype_user(d),
            pdu: Pdu { len: match d.pick(7) { 0..=3 => d.range(2, 80), 4 | 5 => d.range(80, 1500), _ => d.range(1500, 9000) }, seed: d.u32() | 4 },
            cuts: d.vec(1, 3, |d| if d.pick(4) == 0 { d.range(30, 1200) as u16 } else { d.range(1, 30) as u16 }),
            via_encap: d.bool() && l != Lab::ReUse,
        }
    });
    let merge = d.vec(0, 15, |d| d.range(0, 2) as u8);
    let faults = d.vec(0, 2, |d| match d.pick(10) {
        0 => c03::Fault::Drop(d.u16()),
        1 => c03::Fault::Dup(d.u16()),
        2 => c03::Fault::Swap(d.u16(), d.u16()),
        3 => c03::Fault::Flip { pkt: d.u16(), bit: d.u16() },
        4 | 5 => c03::Fault::Burst { pkt: d.u16(), bit: d.u16(), len: d.range(2, 32) as u8, pattern: d.u32() },
        6 => c03::Fault::Trunc { pkt: d.u16(), at: d.u16() },
        7 => c03::Fault::SetFragId { pkt: d.u16(), v: d.u8() },
        8 => c03::Fault::SetTotal { pkt: d.u16(), v: d.u16() },
        _ => {
            if d.bool() {
                c03::Fault::SetCrc { pkt: d.u16(), v: d.u32() }
            } else {
                c03::Fault::SetGseLen { pkt: d.u16(), v: d.range(0, 4095) as u16 }
            }
        }
    });
    let forge_crc = d.pick(3) == 0;
    c03::Case { slots, storage_delta, trains, merge, faults, forge_crc }
}

pub fn send_one(d: &mut D, with_exts: bool, handmade: bool) -> sender::SendOne {
    let (ptype, exts) = if with_exts {
        match d.pick(9) {
            0..=3 => (ptype_user(d), vec![]),
            4..=6 => (ptype_user(d), d.vec(1, 3, ext_nonfinal)),
            _ => {
                let mut v = d.vec(0, 2, ext_nonfinal);
                let f = ext_final(d);
                let p = f.id;
                v.push(f);
                (p, v)
            }
        }
    } else {
        (ptype_user(d), vec![])
    };
    sender::SendOne {
        pdu: pdu(d, 65535),
        lab: lab(d, false, true),
        ptype,
        exts,
        frag_id: d.u8(),
        first: bufspec(d),
        conts: d.vec(0, 12, bufspec),
        tail_base: d.range(4, 4200) as u16,
        tail_span: d.range(1, 4200) as u16,
        handmade: if handmade && d.pick(6) == 0 { Some((d.u32(), d.u16())) } else { None },
    }
}

pub fn send_case(data: &[u8]) -> sender::SendCase {
    let mut d = D::new(data);
    sender::SendCase { reuse: reuse_cfg(&mut d), sends: d.vec(1, 3, |d| send_one(d, true, true)) }
}

pub fn c11_case(data: &[u8]) -> sender::SendCase {
    let mut d = D::new(data);
    let reuse = reuse_cfg(&mut d);
    let sends = d.vec(1, 2, |d| {
        let mut s = send_one(d, true, true);
        s.tail_base = s.tail_base.max(7);
        s
    });
    sender::SendCase { reuse, sends }
}

fn c09_prefix(d: &mut D) -> Vec<c09::PrefixOp> {
    d.vec(0, 4, |d| match d.pick(8) {
        0..=4 => c09::PrefixOp::Send(d.range(0, 3) as u8),
        5 => c09::PrefixOp::Reset,
        _ => c09::PrefixOp::Cfg(reuse_cfg(d)),
    })
}

fn c09_label(d: &mut D) -> Lab {
    match d.pick(10) {
        0..=4 => c09::alpha_label(d.range(0, 3) as u8),
        5 => Lab::Six([0; 6]),
        6 => Lab::ReUse,
        _ => lab(d, true, true),
    }
}

fn c09_buf(d: &mut D) -> BufSpec {
    match d.pick(11) {
        0..=3 => bufspec(d),
        4..=6 => BufSpec::Abs(d.range(4098, 70000)),
        7 | 8 => BufSpec::Abs(d.range(0, 16)),
        _ => BufSpec::HdrPlus(d.irange(-12, 2)),
    }
}

pub fn c09_case(data: &[u8]) -> c09::Case {
    let mut d = D::new(data);
    let prefix = c09_prefix(&mut d);
    let call = match d.pick(14) {
        0..=3 => c09::CallSpec::Encap { pdu: pdu(&mut d, 70000), lab: c09_label(&mut d), ptype: ptype_any(&mut d), frag_id: d.u8(), buf: c09_buf(&mut d) },
        4..=6 => {
            let exts = d.vec(0, 4, |d| match d.pick(8) {
                0..=5 => ext_nonfinal(d),
                _ => ext_final(d),
            });
            c09::CallSpec::EncapExt { pdu: pdu(&mut d, 70000), lab: c09_label(&mut d), ptype: ptype_any(&mut d), frag_id: d.u8(), buf: c09_buf(&mut d), exts }
        }
        7..=9 => c09::CallSpec::EncapFrag { pdu: pdu(&mut d, 70000), frag_id: d.u8(), crc: d.u32(), pos: d.u16(), pos_mode: d.u8(), buf: c09_buf(&mut d) },
        10 | 11 => c09::CallSpec::Preview { pdu: pdu(&mut d, 70000), lab: c09_label(&mut d), ptype: ptype_any(&mut d), buf: c09_buf(&mut d) },
        _ => c09::CallSpec::FragPreview { pdu: pdu(&mut d, 70000), frag_id: d.u8(), crc: d.u32(), pos: d.u16(), pos_mode: d.u8(), buf: c09_buf(&mut d) },
    };
    c09::Case { prefix, call, follow: d.range(0, 2) as u8 }
}

pub fn c18_case(data: &[u8]) -> c18::Case {
    let mut d = D::new(data);
    let prefix = c09_prefix(&mut d);
    let call = if d.pick(5) < 3 {
        c18::Call::First { pdu: pdu(&mut d, 70000), lab: c09_label(&mut d), ptype: ptype_any(&mut d), frag_id: d.u8(), buf: c09_buf(&mut d) }
    } else {
        let buf = match d.pick(4) {
            0 => BufSpec::Abs(d.range(0, 12)),
            1 => BufSpec::RemPlus(d.irange(-4, 8)),
            _ => c09_buf(&mut d),
        };
        c18::Call::Cont { pdu: pdu(&mut d, 70000), frag_id: d.u8(), crc: d.u32(), pos: d.u16(), pos_mode: d.u8(), buf }
    };
    c18::Case { prefix, call }
}

pub fn c16_case(data: &[u8]) -> c16::Case {
    let mut d = D::new(data);
    let slots = if d.pick(6) == 0 { 0 } else { d.range(1, 4) as u8 };
    let pdu_size = match d.pick(9) {
        0 | 1 => d.range(1, 7) as u16,
        2 => d.range(4000, 9000) as u16,
        _ => d.range(8, 200) as u16,
    };
    let prefix = d.vec(0, 30, |d| match d.pick(14) {
        0..=7 => c16::Pre::Op(rx_op(d)),
        8..=11 => c16::Pre::Mutated { op: rx_op(d), muts: d.vec(1, 2, mutation) },
        12 => c16::Pre::Drain,
        _ => c16::Pre::OpenAllSlots,
    });
    c16::Case {
        slots,
        pdu_size,
        prefix,
        probe1_lab: lab(&mut d, false, false),
        probe1_len: d.u16(),
        probe2_lab: lab(&mut d, false, false),
        probe2_id: frag_id(&mut d),
        probe2_len: d.u16(),
        probe2_cuts: d.vec(1, 3, |d| d.range(1, 99) as u16),
        probe2_ext: d.bool(),
        probe2_reuse: d.pick(4) == 0,
    }
}

pub fn c17_case(data: &[u8]) -> c17::RandCase {
    let mut d = D::new(data);
    let k = if d.pick(6) == 0 { 0 } else { d.range(1, 4) as u8 };
    let ops = d.vec(1, 120, |d| {
        let id = |d: &mut D| frag_id(d);
        match d.pick(21) {
            0..=2 => c17::Op::ProvNew(d.range(0, 2) as u8),
            3 | 4 => c17::Op::ProvHand,
            5 | 6 => c17::Op::NewPdu,
            7..=10 => c17::Op::NewFrag(id(d)),
            11..=14 => c17::Op::TakeFrag(id(d)),
            15..=17 => c17::Op::SaveLast,
            18 => c17::Op::SaveOldest,
            _ => c17::Op::SaveFresh(id(d)),
        }
    });
    c17::RandCase { k, ops }
}

// ---- further parts ------------------------------------------------------------------------------

use crate::props::{c01, c02, c04, c07, c10, c13, c15, c19, c20};

pub fn c01_case(data: &[u8]) -> c01::Case {
    let mut d = D::new(data);
    let reuse = reuse_cfg(&mut d);
    let items = d.vec(1, 6, |d| {
        let len = match d.pick(7) {
            0 => d.range(0, 1),
            1..=3 => d.range(2, 1500),
            _ => d.range(4081, 4096),
        };
        let buf = match d.pick(11) {
            0..=3 => BufSpec::FitPlus(0),
            4 | 5 => BufSpec::FitPlus(d.irange(1, 8)),
            6 => BufSpec::FitPlus(d.irange(-6, -1)),
            7 | 8 => BufSpec::Abs(d.range(4098, 70000)),
            _ => BufSpec::Abs(d.range(0, 4200)),
        };
        c01::Item {
            pdu: Pdu { len, seed: d.u32() | 4 },
            lab: lab(d, false, true),
            ptype: ptype_user(d),
            frag_id: d.u8(),
            buf,
            storage_extra: match d.pick(7) { 0..=2 => 0, 3 | 4 => 1, _ => d.range(2, 70000) },
            set_reuse: if d.pick(7) == 0 { Some(reuse_cfg(d)) } else { None },
            failed_call_before: if d.pick(5) == 0 { d.range(1, 2) as u8 } else { 0 },
        }
    });
    c01::Case { reuse, items }
}

pub fn c02_case(data: &[u8]) -> c02::Case {
    let mut d = D::new(data);
    let lab_ = lab(&mut d, false, true);
    let len = d.len_class(65533 - lab_.len() as u32, &[4095, 4097, 4110, 65527, 65533]).max(1);
    let schedule = d.vec(1, 40, |d| match d.pick(15) {
        0 | 1 => BufSpec::Abs(d.range(0, 12)),
        2..=4 => BufSpec::Abs(d.range(13, 64)),
        5..=7 => BufSpec::Abs(d.range(65, 4097)),
        8 | 9 => BufSpec::Abs(d.range(4098, 70000)),
        10 | 11 => BufSpec::RemPlus(d.irange(-4, 8)),
        12 | 13 => BufSpec::FitPlus(d.irange(-8, 8)),
        _ => BufSpec::HdrPlus(d.irange(-4, 40)),
    });
    c02::Case {
        pre: if d.pick(3) == 0 { c09_prefix(&mut d) } else { vec![] },
        reuse: reuse_cfg(&mut d),
        prime: d.bool() || lab_ == Lab::ReUse,
        pdu: Pdu { len, seed: d.u32() | 4 },
        lab: lab_,
        ptype: ptype_user(&mut d),
        frag_id: d.u8(),
        schedule,
        tail_base: d.range(13, 4200) as u16,
        tail_span: d.range(1, 4200) as u16,
        storage_extra: match d.pick(5) { 0..=2 => 0, 3 => 1, _ => d.range(2, 69999) },
    }
}

pub fn c04a_case(data: &[u8]) -> c04::CaseA {
    let mut d = D::new(data);
    let ops = d.vec(1, 60, |d| match d.pick(20) {
        0..=11 => {
            let outcome = match d.pick(13) {
                0..=4 => c04::Outcome::Complete,
                5..=7 => c04::Outcome::Fragment,
                8 | 9 => c04::Outcome::FailSmallBuffer,
                10 => c04::Outcome::FailPduTooLong,
                11 => c04::Outcome::FailBadPtype,
                _ => c04::Outcome::FailZeroLabel,
            };
            c04::Op::Send { lab: [0u8, 0, 1, 1, 2, 2, 0, 1, 3, 4, 5, 5, 6, 6][d.pick(14)], outcome, ext: d.pick(5) == 0, frag_id: d.range(0, 3) as u8, len: d.range(0, 59) as u8 }
        }
        12..=15 => c04::Op::Cont { k: d.u16(), n: d.range(0, 39) as u8 },
        16 => c04::Op::ResetBoth,
        17 => c04::Op::Disable,
        18 => c04::Op::Enable,
        _ => c04::Op::Max(if d.bool() { d.range(1, 3) as u8 } else { d.u8() }),
    });
    c04::CaseA { ops }
}

pub fn c04b_case(data: &[u8]) -> c04::CaseB {
    let mut d = D::new(data);
    let ops = d.vec(1, 50, |d| match d.pick(20) {
        19 => c04::RxB::Raw(vec![0u8; d.range(2, 5) as usize]),
        0..=13 => {
            let l = match d.pick(9) {
                0..=2 => [Lab::Six(ALPHA6[0]), Lab::Six(ALPHA6[1]), Lab::Three(ALPHA3[0]), Lab::Three(ALPHA3[1]), Lab::Six(ALPHA6[2])][d.pick(5)],
                3 => Lab::Broadcast,
                4..=7 => Lab::ReUse,
                _ => Lab::Six([0; 6]),
            };
            c04::RxB::Start { kind: d.range(0, 1) as u8, lab: l, ext: match d.pick(7) { 0..=4 => 0, 5 => 1, _ => 2 }, len: d.range(0, 79) as u8, id: d.range(0, 3) as u8, muts: if d.pick(7) == 0 { d.vec(1, 2, mutation) } else { vec![] } }
        }
        14 => c04::RxB::Reset,
        15 => c04::RxB::Drain,
        16 | 17 => c04::RxB::Provision,
        _ => c04::RxB::Raw(d.bytes(12)),
    });
    c04::CaseB { ops }
}

pub fn c07_case(data: &[u8]) -> c07::Scenario {
    let mut d = D::new(data);
    let k: u16 = match d.pick(10) {
        0 => 256,
        1 => 128,
        _ => d.range(2, 8) as u16,
    };
    let n = (d.range(2, 4) as usize).min(k as usize);
    let mut residues: Vec<u16> = (0..k).collect();
    let mut trains = vec![];
    for _ in 0..n {
        let r = residues.remove(d.pick(residues.len()));
        let mult = d.range(0, (255 - r as u32) / k as u32);
        let len = d.range(8, 6000);
        let ncuts = d.range(1, 4) as usize;
        let maxcut = (len as usize / (ncuts + 1)).max(1) as u32;
        trains.push(c07::TrainSpec { id: (r as u32 + k as u32 * mult) as u8, lab: lab(&mut d, false, false), ptype: ptype_user(&mut d), pdu: Pdu { len, seed: d.u32() | 4 }, cuts: (0..ncuts).map(|_| d.range(1, maxcut.min(1500)) as u16).collect(), ext: d.bool() });
    }
    let total: usize = trains.iter().map(|t| t.cuts.len() + 1).sum();
    let merge = (0..total + 4).map(|_| d.range(0, n as u32 - 1) as u8).collect();
    let strays = d.vec(0, 6, |d| {
        let t = d.range(0, 3) as u8;
        let s = match d.pick(12) {
            0..=2 => c07::Stray::InterAlias(t),
            3..=5 => c07::Stray::EndAlias(t),
            6 => c07::Stray::InterUnknown,
            7 => c07::Stray::EndUnknown,
            8 => c07::Stray::CompleteBroadcast,
            9 => c07::Stray::CompleteLabel,
            10 => c07::Stray::RestartSame(t),
            _ => c07::Stray::ClaimAlias(t),
        };
        (d.u16(), s)
    });
    c07::Scenario { k, trains, merge, strays, reuse_mask: d.u8(), as_frame: d.bool(), spare: d.range(0, 2) as u8 }
}

pub fn c10_case(data: &[u8]) -> c10::Case {
    let mut d = D::new(data);
    let reuse = reuse_cfg(&mut d);
    let storage = if d.pick(4) == 0 { d.range(0, 99) as u16 } else { 10000 };
    let free_bufs = if d.pick(5) == 0 { d.range(0, 3) as u8 } else { 4 };
    let know_mand = d.pick(4) != 0;
    let items = d.vec(1, 16, |d| {
        let brk = d.pick(6) == 0;
        let len = |d: &mut D| match d.pick(8) { 0 | 1 => d.range(0, 2), 2..=5 => d.range(3, 59), _ => d.range(60, 399) } as u16;
        let it = match d.pick(14) {
            0..=4 => c10::Item::Complete { lab: lab(d, false, true), len: len(d), kind: [0u8, 0, 0, 0, 1, 1, 2, 2, 3, 4][d.pick(10)] },
            5..=7 => c10::Item::Start { id: d.range(0, 5) as u8, lab: lab(d, false, true), len: match d.pick(8) { 0 | 1 => 0, 2 => d.range(4000, 8999) as u16, _ => d.range(4, 399) as u16 }, first_payload: d.range(0, 39) as u8, ext: d.bool() },
            8..=12 => c10::Item::Cont { k: d.u16(), n: match d.pick(8) { 0 | 1 => d.range(30, 499) as u16, 2 => d.range(4070, 4110) as u16, 3 => d.range(500, 5999) as u16, _ => d.range(0, 29) as u16 }, corrupt: d.pick(7) == 0 },
            _ => c10::Item::Orphan { id: d.range(0, 5) as u8, end: d.bool() },
        };
        (brk, it)
    });
    let pad = d.range(0, 39) as u8;
    let garbage = if d.pick(5) == 0 { Some(d.vec(1, 39, |d| d.u8())) } else { None };
    c10::Case { reuse, storage, free_bufs, know_mand, items, pad, garbage }
}

pub fn c13_case(data: &[u8]) -> c13::Case {
    let mut d = D::new(data);
    let (user_ptype, exts) = if d.pick(5) < 3 {
        (Some(ptype_user(&mut d)), d.vec(1, 4, ext_nonfinal))
    } else {
        let mut v = d.vec(0, 2, ext_nonfinal);
        v.push(ext_final(&mut d));
        (None, v)
    };
    let first = match d.pick(9) {
        0..=3 => BufSpec::HdrPlus(d.irange(-4, 60)),
        4..=6 => BufSpec::FitPlus(d.irange(-6, 4)),
        7 => BufSpec::Abs(d.range(4098, 20000)),
        _ => BufSpec::Abs(d.range(13, 4097)),
    };
    let len = match d.pick(8) { 0..=2 => d.range(0, 40), 3..=5 => d.range(40, 600), 6 => d.range(600, 5000), _ => d.range(4050, 4100) };
    c13::Case {
        lab: lab(&mut d, false, true),
        user_ptype,
        pdu: Pdu { len, seed: d.u32() | 4 },
        exts,
        frag_id: d.u8(),
        first,
        cont_buf: d.range(7, 600) as u16,
        storage_extra: if d.pick(3) == 0 { d.range(1, 499) as u16 } else { 0 },
        mgr_mask: match d.pick(6) { 0..=2 => u32::MAX, 3 | 4 => d.u32(), _ => 0 },
        prime_same_label: d.pick(3) == 0,
        follow_up: match d.pick(4) { 0 => 1, 1 => 2, _ => 0 },
    }
}

pub fn c15_case(data: &[u8]) -> c15::RandCase {
    let mut d = D::new(data);
    let labs = [c15::A6, c15::A6, c15::A6, c15::B6, c15::B6, c15::A3, c15::A3, c15::B3, Lab::Broadcast, Lab::ReUse, Lab::Six([6, 1, 0, 0, 0, 1]), Lab::Six([0, 0, 0, 0xAA, 0xBB, 0xCC]), Lab::Three([2, 0, 0])];
    let ops = d.vec(1, 80, |d| match d.pick(19) {
        0..=7 => c15::Op::Send { lab: labs[d.pick(13)], mode: d.range(0, 2) as u8 },
        8..=10 => c15::Op::Burst { lab: labs[d.pick(13)], n: if d.pick(3) == 0 { d.range(200, 299) as u16 } else { d.range(2, 7) as u16 } },
        11..=13 => c15::Op::Fail { lab: labs[d.pick(13)], long: d.bool() },
        14 => c15::Op::Reset,
        15 => c15::Op::Disable,
        16 => c15::Op::Enable,
        _ => c15::Op::Max(match d.pick(4) { 0 | 1 => d.range(0, 3) as u8, 2 => d.u8(), _ => d.range(250, 255) as u8 }),
    });
    c15::RandCase { ops }
}

pub fn c19_case(data: &[u8]) -> c19::Case {
    let mut d = D::new(data);
    let reuse = reuse_cfg(&mut d);
    let sends = d.vec(1, 3, |d| {
        let mut s = send_one(d, true, false);
        s.tail_base = s.tail_base.max(7);
        s.conts.truncate(6);
        s
    });
    let tail = d.vec(1, 64, |d| d.u8());
    let slots = if d.pick(3) == 0 { d.range(1, 3) as u8 } else { 0 };
    let merge = if d.bool() { d.vec(1, 30, |d| d.range(0, 2) as u8) } else { vec![] };
    c19::Case { send: sender::SendCase { reuse, sends }, tail, slots, merge }
}

pub fn c20_case(data: &[u8]) -> c20::Case {
    let mut d = D::new(data);
    let pay = |d: &mut D, lo: u32| Pdu { len: match d.pick(8) { 0..=2 => d.range(lo, 40), 3..=5 => d.range(40, 1000), _ => d.range(1000, 4000) }, seed: if d.pick(8) == 0 { d.range(0, 2) } else { d.u32() | 4 } };
    let desc = match d.pick(4) {
        0 => c20::Desc::Complete { lab: lab(&mut d, false, true), ptype: ptype_user(&mut d), payload: pay(&mut d, 0) },
        1 => c20::Desc::First { lab: lab(&mut d, false, true), frag_id: d.u8(), ptype: ptype_user(&mut d), payload: pay(&mut d, 0), extra: match d.pick(3) { 0 => 4, 1 => d.range(4, 1999) as u16, _ => d.range(2000, 59999) as u16 } },
        2 => c20::Desc::Inter { frag_id: d.u8(), payload: pay(&mut d, 1), pos: d.range(0, 2999) as u16, extra: d.range(1, 2999) as u16 },
        _ => c20::Desc::End { frag_id: d.u8(), payload: pay(&mut d, 0), pos: d.range(1, 2999) as u16, crc: d.u32() },
    };
    c20::Case { d: desc, slack: d.range(0, 19) as u8 }
}
