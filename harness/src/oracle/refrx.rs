//! RefRx — reference receiver computed from the bytes actually received.
//!
//! Tracks, per frame, the "effective label" register (label carried by the nearest preceding
//! well-formed start/complete packet) and, per fragment id, the most recent well-formed first
//! fragment together with the payloads of all later well-formed fragments of that id.

use super::refcodec::{self, Malformed, MandFn, Parsed, RefPacket};
use super::refcrc;
use crate::common::Lab;
use std::collections::HashMap;

#[derive(Clone, Debug, PartialEq, Eq)]
pub enum Eff {
    /// the nearest preceding start/complete packet is known: Some(label) or None (broadcast / frame start)
    Known(Option<Lab>),
    /// something malformed preceded: the model does not claim to know
    Unknown,
}

#[derive(Clone, Debug)]
pub struct Train {
    pub first: RefPacket,
    /// label the receiver must report: the first fragment's own label, or the effective label if it carried re-use
    pub label: Eff,
    pub payload: Vec<u8>,
}

#[derive(Clone, Debug)]
pub enum Seen {
    Malformed(Malformed),
    Padding,
    Complete { pkt: RefPacket, label: Eff, len: usize },
    First { pkt: RefPacket, label: Eff, len: usize },
    Intermediate { pkt: RefPacket, len: usize, had_train: bool },
    /// `trains`: the candidate open trains of that id *including this end packet's payload*.
    /// More than one candidate exists only after a first fragment that a receiver may
    /// legitimately reject (unresolvable re-use label, zero label, inconsistent total length):
    /// whether such a packet discards the reassembly in progress is not specified, so both
    /// readings are kept.
    End { pkt: RefPacket, len: usize, trains: Vec<Train> },
}

pub struct RefRx {
    pub eff: Eff,
    pub trains: HashMap<u8, Vec<Train>>,
    /// candidates displaced by the most recently observed first fragment (restored by
    /// `receiver_rejected_last` when the receiver rejected that packet as a whole)
    displaced: Option<(u8, Vec<Train>)>,
}

impl Default for RefRx {
    fn default() -> Self {
        Self::new()
    }
}

impl RefRx {
    pub fn new() -> Self {
        RefRx { eff: Eff::Known(None), trains: HashMap::new(), displaced: None }
    }
    pub fn reset_label(&mut self) {
        self.eff = Eff::Known(None);
    }
    /// The receiver under test returned an error for the packet observed last: a rejected
    /// packet is dropped as a whole, so a reassembly it would have displaced may go on.
    pub fn receiver_rejected_last(&mut self) {
        if let Some((id, mut old)) = self.displaced.take() {
            let e = self.trains.entry(id).or_default();
            old.append(e);
            *e = old;
        }
    }

    /// Observe the first packet of `bytes` and update the model.
    pub fn observe(&mut self, bytes: &[u8], mand: MandFn) -> Seen {
        self.displaced = None;
        match refcodec::parse(bytes, mand) {
            Err(m) => {
                self.eff = Eff::Unknown;
                Seen::Malformed(m)
            }
            Ok(Parsed::Padding) => {
                // padding runs to the end of the frame: whatever is decapsulated next belongs to
                // another frame and has no preceding start/complete packet in it
                self.eff = Eff::Known(None);
                Seen::Padding
            }
            Ok(Parsed::Packet(p, len)) => {
                if p.start {
                    let carried = Lab::from_wire(p.lt, &p.label);
                    let label = match carried {
                        Lab::ReUse => self.eff.clone(),
                        l => Eff::Known(Some(l)),
                    };
                    if p.is_zero_label() {
                        self.eff = Eff::Unknown;
                    } else {
                        match carried {
                            Lab::Six(_) | Lab::Three(_) => self.eff = Eff::Known(Some(carried)),
                            Lab::Broadcast => self.eff = Eff::Known(None),
                            Lab::ReUse => {}
                        }
                    }
                    let label = if carried == Lab::Broadcast { Eff::Known(Some(Lab::Broadcast)) } else { label };
                    if p.end {
                        Seen::Complete { pkt: p, label, len }
                    } else {
                        let id = p.frag_id.unwrap_or(0);
                        let unresolvable = carried == Lab::ReUse && !matches!(label, Eff::Known(Some(_)));
                        let inconsistent = (p.total_len.unwrap_or(0) as usize) < 2 + p.label.len() + p.payload.len();
                        let rejectable = p.is_zero_label() || unresolvable || inconsistent;
                        let old = self.trains.remove(&id).unwrap_or_default();
                        let mut cands = if rejectable {
                            old
                        } else {
                            self.displaced = Some((id, old));
                            vec![]
                        };
                        if !p.is_zero_label() {
                            cands.push(Train { first: p.clone(), label: label.clone(), payload: p.payload.clone() });
                        }
                        self.trains.insert(id, cands);
                        Seen::First { pkt: p, label, len }
                    }
                } else {
                    let id = p.frag_id.unwrap_or(0);
                    if p.end {
                        let mut trains = self.trains.remove(&id).unwrap_or_default();
                        for t in trains.iter_mut() {
                            t.payload.extend_from_slice(&p.payload);
                        }
                        Seen::End { pkt: p, len, trains }
                    } else {
                        let mut had = false;
                        if let Some(ts) = self.trains.get_mut(&id) {
                            for t in ts.iter_mut() {
                                t.payload.extend_from_slice(&p.payload);
                                had = true;
                            }
                        }
                        Seen::Intermediate { pkt: p, len, had_train: had }
                    }
                }
            }
        }
    }
}

/// The first sentence of C03 for a delivery at an end fragment: returns Err(reason) when the
/// delivery is not allowed.
pub fn delivery_allowed(t: &Train, end: &RefPacket) -> Result<(), String> {
    let total = t.first.total_len.unwrap_or(0) as usize;
    let l_first = t.first.label.len();
    if t.payload.len() + 2 + l_first != total {
        return Err(format!("payloads since the most recent first fragment sum to {} bytes, total length {} announces {}", t.payload.len(), total, total as i64 - 2 - l_first as i64));
    }
    let crc = refcrc::gse_crc(total as u16, t.first.ptype.unwrap_or(0), &t.first.label, &t.payload);
    if Some(crc) != end.crc {
        return Err(format!("CRC-32 over the received bytes is {:#010x}, trailer is {:#010x?}", crc, end.crc));
    }
    Ok(())
}
