//! Bit-by-bit CRC-32/MPEG-2: poly 0x04C11DB7, init 0xFFFFFFFF, no reflection, no xor-out.
//! Independent of the crate's table.  Check value: crc("123456789") = 0x0376E6E7.

pub fn crc32_mpeg2_update(mut crc: u32, data: &[u8]) -> u32 {
    for &b in data {
        crc ^= (b as u32) << 24;
        for _ in 0..8 {
            crc = if crc & 0x8000_0000 != 0 {
                (crc << 1) ^ 0x04C1_1DB7
            } else {
                crc << 1
            };
        }
    }
    crc
}

pub fn crc32_mpeg2(data: &[u8]) -> u32 {
    crc32_mpeg2_update(0xFFFF_FFFF, data)
}

/// Faster variant used where megabytes are hashed: table built at start-up from
/// the bitwise routine above (NOT from the crate's table).
pub struct FastCrc {
    tab: [u32; 256],
}

impl FastCrc {
    pub fn new() -> Self {
        let mut tab = [0u32; 256];
        for i in 0..256u32 {
            tab[i as usize] = crc32_mpeg2_update(0, &[i as u8]);
        }
        FastCrc { tab }
    }
    pub fn update(&self, mut crc: u32, data: &[u8]) -> u32 {
        for &b in data {
            crc = (crc << 8) ^ self.tab[((crc >> 24) ^ b as u32) as usize];
        }
        crc
    }
}

pub fn fast() -> &'static FastCrc {
    use std::sync::OnceLock;
    static F: OnceLock<FastCrc> = OnceLock::new();
    F.get_or_init(FastCrc::new)
}

/// CRC of the GSE reassembly string: total_len(2,BE) | ptype(2,BE) | label | pdu
pub fn gse_crc(total_len: u16, ptype: u16, label: &[u8], pdu: &[u8]) -> u32 {
    let f = fast();
    let mut c = 0xFFFF_FFFFu32;
    c = f.update(c, &total_len.to_be_bytes());
    c = f.update(c, &ptype.to_be_bytes());
    c = f.update(c, label);
    f.update(c, pdu)
}

pub fn gse_crc_bitwise(total_len: u16, ptype: u16, label: &[u8], pdu: &[u8]) -> u32 {
    let mut c = 0xFFFF_FFFFu32;
    c = crc32_mpeg2_update(c, &total_len.to_be_bytes());
    c = crc32_mpeg2_update(c, &ptype.to_be_bytes());
    c = crc32_mpeg2_update(c, label);
    crc32_mpeg2_update(c, pdu)
}

pub fn self_test() -> Result<(), String> {
    if crc32_mpeg2(b"123456789") != 0x0376_E6E7 {
        return Err("RefCrc check value mismatch".into());
    }
    let f = fast();
    if f.update(0xFFFF_FFFF, b"123456789") != 0x0376_E6E7 {
        return Err("FastCrc check value mismatch".into());
    }
    // fast == bitwise on a longer pseudo-random string
    let data: Vec<u8> = (0..5000u32).map(|i| (i.wrapping_mul(2654435761) >> 13) as u8).collect();
    if f.update(0xFFFF_FFFF, &data) != crc32_mpeg2(&data) {
        return Err("FastCrc != bitwise".into());
    }
    Ok(())
}
