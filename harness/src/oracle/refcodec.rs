//! RefCodec — the harness's own reading of ETSI TS 102 606-1 §4.2 (GSE packet
//! format) and RFC 5163 §5 / TS 102 606 §4.2.3 (extension headers).  Nothing
//! from the crate under test is used here.
//!
//! Fixed header (16 bits, big endian): S(1) E(1) LT(2) GSE-length(12).
//!   S=1,E=1 complete : type(2) label(L) [ext chain] pdu
//!   S=1,E=0 first    : frag-id(1) total-length(2) type(2) label(L) [ext chain] pdu-fragment
//!   S=0,E=0 interm.  : frag-id(1) pdu-fragment            (LT=00 => padding)
//!   S=0,E=1 end      : frag-id(1) pdu-fragment crc32(4)
//! LT: 00 six-byte label, 01 three-byte label, 10 broadcast (no label), 11 re-use (no label).
//! type < 0x0600 => extension header: H-LEN = bits 10..8; 0 = mandatory (length known
//! to the receiver only; a *final* mandatory extension replaces the protocol type),
//! 1..5 = optional with 0/2/4/6/8 data bytes; each non-final extension is followed by
//! the next 2-byte type field.

use serde::{Deserialize, Serialize};

#[derive(Clone, Copy, Debug, PartialEq, Eq)]
pub enum Mand {
    Unknown,
    Final(usize),
    NonFinal(usize),
}

pub type MandFn<'a> = &'a dyn Fn(u16) -> Mand;

pub fn no_mand(_: u16) -> Mand {
    Mand::Unknown
}

#[derive(Clone, Debug, PartialEq, Eq, Hash, Serialize, Deserialize)]
pub struct RefPacket {
    pub start: bool,
    pub end: bool,
    /// label-type bits 0..=3
    pub lt: u8,
    pub frag_id: Option<u8>,
    pub total_len: Option<u16>,
    pub label: Vec<u8>,
    /// (id, data) in wire order
    pub exts: Vec<(u16, Vec<u8>)>,
    /// protocol type after the extension chain (id of the final mandatory extension if any)
    pub ptype: Option<u16>,
    /// the first 2-byte type field as on the wire (start packets)
    pub first_type: Option<u16>,
    pub payload: Vec<u8>,
    pub crc: Option<u32>,
}

#[derive(Clone, Debug, PartialEq, Eq)]
pub enum Parsed {
    Padding,
    Packet(RefPacket, usize),
}

#[derive(Clone, Debug, PartialEq, Eq)]
pub enum Malformed {
    Short,
    Truncated { announced: usize },
    GseLenTooSmall,
    ExtOverrun,
    UnknownMandatory { id: u16, pkt_len: usize },
}

pub const OPT_DATA_LEN: [usize; 6] = [0, 0, 2, 4, 6, 8];

pub fn label_len_of_lt(lt: u8) -> usize {
    match lt & 3 {
        0 => 6,
        1 => 3,
        _ => 0,
    }
}

impl RefPacket {
    pub fn kind(&self) -> &'static str {
        match (self.start, self.end) {
            (true, true) => "complete",
            (true, false) => "first",
            (false, false) => "intermediate",
            (false, true) => "end",
        }
    }
    pub fn is_zero_label(&self) -> bool {
        self.start && (self.lt & 3) == 0 && self.label.iter().all(|b| *b == 0)
    }
    /// wire length of the extension area: all ext ids after the first, all ext data,
    /// plus the trailing protocol type when the chain is not closed by a final mandatory ext.
    pub fn ext_area_len(&self, final_mand: bool) -> usize {
        if self.exts.is_empty() {
            return 0;
        }
        let mut n = 0;
        for (i, (_, d)) in self.exts.iter().enumerate() {
            if i > 0 {
                n += 2;
            }
            n += d.len();
        }
        if !final_mand {
            n += 2;
        }
        n
    }

    /// Serialise.  `final_mand`: the last extension is a final mandatory one (no
    /// protocol type follows).  GSE length is computed from the fields.
    pub fn encode(&self, final_mand: bool) -> Vec<u8> {
        let mut body: Vec<u8> = vec![];
        if !(self.start && self.end) {
            body.push(self.frag_id.unwrap_or(0));
        }
        if self.start {
            if !self.end {
                body.extend_from_slice(&self.total_len.unwrap_or(0).to_be_bytes());
            }
            let ptype = self.ptype.unwrap_or(0);
            if self.exts.is_empty() {
                body.extend_from_slice(&ptype.to_be_bytes());
                body.extend_from_slice(&self.label);
            } else {
                body.extend_from_slice(&self.exts[0].0.to_be_bytes());
                body.extend_from_slice(&self.label);
                for (i, (id, d)) in self.exts.iter().enumerate() {
                    if i > 0 {
                        body.extend_from_slice(&id.to_be_bytes());
                    }
                    body.extend_from_slice(d);
                }
                if !final_mand {
                    body.extend_from_slice(&ptype.to_be_bytes());
                }
            }
        }
        body.extend_from_slice(&self.payload);
        if !self.start && self.end {
            body.extend_from_slice(&self.crc.unwrap_or(0).to_be_bytes());
        }
        let h: u16 = ((self.start as u16) << 15)
            | ((self.end as u16) << 14)
            | (((self.lt & 3) as u16) << 12)
            | ((body.len() as u16) & 0x0FFF);
        let mut out = h.to_be_bytes().to_vec();
        out.extend_from_slice(&body);
        out
    }
}

/// Parse the first packet of `bytes`.
pub fn parse(bytes: &[u8], mand: MandFn) -> Result<Parsed, Malformed> {
    if bytes.len() < 2 {
        return Err(Malformed::Short);
    }
    let h = u16::from_be_bytes([bytes[0], bytes[1]]);
    let start = h & 0x8000 != 0;
    let end = h & 0x4000 != 0;
    let lt = ((h >> 12) & 3) as u8;
    let gse_len = (h & 0x0FFF) as usize;
    if !start && !end && lt == 0 {
        return Ok(Parsed::Padding);
    }
    if bytes.len() < gse_len + 2 {
        return Err(Malformed::Truncated { announced: gse_len + 2 });
    }
    let pkt_len = gse_len + 2;
    let body = &bytes[2..pkt_len];
    let mut off = 0usize;
    let mut p = RefPacket {
        start,
        end,
        lt,
        frag_id: None,
        total_len: None,
        label: vec![],
        exts: vec![],
        ptype: None,
        first_type: None,
        payload: vec![],
        crc: None,
    };
    if !(start && end) {
        if body.is_empty() {
            return Err(Malformed::GseLenTooSmall);
        }
        p.frag_id = Some(body[0]);
        off = 1;
    }
    if start {
        let l = label_len_of_lt(lt);
        let need = if end { 2 + l } else { 2 + 2 + l };
        if body.len() < off + need {
            return Err(Malformed::GseLenTooSmall);
        }
        if !end {
            p.total_len = Some(u16::from_be_bytes([body[off], body[off + 1]]));
            off += 2;
        }
        let mut t = u16::from_be_bytes([body[off], body[off + 1]]);
        off += 2;
        p.first_type = Some(t);
        p.label = body[off..off + l].to_vec();
        off += l;
        // extension chain
        loop {
            if t >= 0x0600 {
                p.ptype = Some(t);
                break;
            }
            let hlen = (t >> 8) as usize;
            if hlen == 0 {
                match mand(t) {
                    Mand::Unknown => {
                        return Err(Malformed::UnknownMandatory { id: t, pkt_len });
                    }
                    Mand::Final(n) => {
                        if body.len() < off + n {
                            return Err(Malformed::ExtOverrun);
                        }
                        p.exts.push((t, body[off..off + n].to_vec()));
                        off += n;
                        p.ptype = Some(t);
                        break;
                    }
                    Mand::NonFinal(n) => {
                        if body.len() < off + n + 2 {
                            return Err(Malformed::ExtOverrun);
                        }
                        p.exts.push((t, body[off..off + n].to_vec()));
                        off += n;
                    }
                }
            } else {
                let n = OPT_DATA_LEN[hlen];
                if body.len() < off + n + 2 {
                    return Err(Malformed::ExtOverrun);
                }
                p.exts.push((t, body[off..off + n].to_vec()));
                off += n;
            }
            t = u16::from_be_bytes([body[off], body[off + 1]]);
            off += 2;
        }
        p.payload = body[off..].to_vec();
    } else if end {
        if body.len() < 1 + 4 {
            return Err(Malformed::GseLenTooSmall);
        }
        let n = body.len();
        p.payload = body[1..n - 4].to_vec();
        p.crc = Some(u32::from_be_bytes([body[n - 4], body[n - 3], body[n - 2], body[n - 1]]));
    } else {
        p.payload = body[1..].to_vec();
    }
    Ok(Parsed::Packet(p, pkt_len))
}

/// Golden packets taken from the repository's own tests (captured signalling
/// traffic, tests `test_decap_signalisation_*`), used as a self-test of this reader.
pub fn self_test() -> Result<(), String> {
    // hand-made complete packet from the crate's doc example: E0 1C FFFF + 26 bytes
    let mut v = vec![0xE0, 28, 0xFF, 0xFF];
    v.extend_from_slice(b"abcdefghijklmnopqrstuvwxyz");
    match parse(&v, &no_mand) {
        Ok(Parsed::Packet(p, 30)) => {
            if !(p.start && p.end && p.lt == 2 && p.ptype == Some(0xFFFF) && p.payload == b"abcdefghijklmnopqrstuvwxyz") {
                return Err(format!("refcodec self-test 1: {:?}", p));
            }
            if p.encode(false) != v {
                return Err("refcodec self-test 1: encode != input".into());
            }
        }
        o => return Err(format!("refcodec self-test 1: {:?}", o)),
    }
    // first fragment, 6-byte label, one optional ext (0x0201 => 2 data bytes)
    let p = RefPacket {
        start: true,
        end: false,
        lt: 0,
        frag_id: Some(7),
        total_len: Some(100),
        label: vec![1, 2, 3, 4, 5, 6],
        exts: vec![(0x0201, vec![0xAA, 0xBB])],
        ptype: Some(0x0800),
        first_type: Some(0x0201),
        payload: vec![9, 9, 9],
        crc: None,
    };
    let w = p.encode(false);
    let expect: Vec<u8> = vec![
        0x80, 18, 7, 0, 100, 0x02, 0x01, 1, 2, 3, 4, 5, 6, 0xAA, 0xBB, 0x08, 0x00, 9, 9, 9,
    ];
    if w != expect {
        return Err(format!("refcodec self-test 2: {:02x?}", w));
    }
    match parse(&w, &no_mand) {
        Ok(Parsed::Packet(q, n)) if q == p && n == w.len() => {}
        o => return Err(format!("refcodec self-test 2 parse: {:?}", o)),
    }
    // padding
    if parse(&[0x00, 0x00, 0x00], &no_mand) != Ok(Parsed::Padding) {
        return Err("refcodec self-test 3".into());
    }
    if parse(&[0x0F, 0xFF], &no_mand) != Ok(Parsed::Padding) {
        return Err("refcodec self-test 3b".into());
    }
    // end fragment
    let e = RefPacket {
        start: false,
        end: true,
        lt: 3,
        frag_id: Some(1),
        total_len: None,
        label: vec![],
        exts: vec![],
        ptype: None,
        first_type: None,
        payload: vec![5, 6],
        crc: Some(0x01020304),
    };
    let w = e.encode(false);
    if w != vec![0x70, 7, 1, 5, 6, 1, 2, 3, 4] {
        return Err(format!("refcodec self-test 4: {:02x?}", w));
    }
    match parse(&w, &no_mand) {
        Ok(Parsed::Packet(q, 9)) if q == e => {}
        o => return Err(format!("refcodec self-test 4 parse: {:?}", o)),
    }
    Ok(())
}
