//! C06 — every emitted packet is a well-formed, length-accurate GSE packet.

use super::sender::*;
use crate::common::*;
use crate::engine::{EnumPart, GenPart, Property, Stats, Tier};
use serde_json::Value;
use proptest::prelude::*;

fn strategy(t: Tier) -> BoxedStrategy<SendCase> {
    send_case(Knobs { with_exts: true, max_sends: 3, max_conts: t.pick(10, 16), tail_min: 4, handmade_pct: 15, tiny_bias: false })
}

fn check(c: &SendCase, st: &mut Stats) -> Result<(), String> {
    run_send_case(c, st, Flags { c06: true, c11: false }).map(|_| ())
}

// ---- enumerated: every PDU length, maximal / larger-than-frame / MTU-sized buffers -----------------------

const LEN_TOP: u64 = 65541; // 0..=65540: every legal PDU length and the first refused ones

fn sweep_case(t: Tier, i: u64) -> SendCase {
    let n = sweep_lens(t, LEN_TOP);
    let len = sweep_len_at(t, LEN_TOP, i % n);
    let labkind = (i / n) % 4;
    let prof = i / n / 4;
    let lab = match labkind {
        0 => Lab::Six(ALPHA6[0]),
        1 => Lab::Three(ALPHA3[0]),
        2 => Lab::Broadcast,
        _ => Lab::Six(ALPHA6[1]),
    };
    let (first, conts, tail_base) = match prof {
        0 => (BufSpec::Abs(4097), vec![], 4097u16),
        1 => (BufSpec::Abs(70000), vec![BufSpec::Abs(70000); 20], 4097u16),
        _ => (BufSpec::Abs(1500), vec![], 1500u16),
    };
    let one = |len: u32, first: BufSpec, conts: Vec<BufSpec>, tail_base: u16| SendOne {
        pdu: Pdu { len, seed: 3 + len },
        lab,
        ptype: 0x0600 + ((len as u64 * 7919) % (0x10000 - 0x0600)) as u16,
        frag_id: (len % 256) as u8,
        exts: vec![],
        first,
        conts,
        tail_base,
        tail_span: 1,
        handmade: None,
    };
    let mut sends = vec![];
    if labkind == 3 {
        // same label just before, re-use enabled: the swept PDU starts with a substituted label
        sends.push(one(5, BufSpec::Abs(100), vec![], 100));
    }
    sends.push(one(len, first, conts, tail_base));
    SendCase { reuse: ReuseCfg::Enabled, sends }
}

fn check_sweep(i: u64, st: &mut Stats) -> Result<(), String> {
    let c = sweep_case(st.tier, i);
    run_send_case(&c, st, Flags { c06: true, c11: false }).map(|_| ())
}

pub fn property() -> Property {
    Property {
        id: "C06",
        rule: "sender sessions: re-use setting, 1..3 PDUs (0..=65535 bytes, any label, user protocol type or extension chains incl. final mandatory), first buffer and continuation buffers 0..=70000 drawn from size classes around every limit, some trains started from hand-made contexts; each call runs twice on clones into complementary prefills so the written set is observable; each Ok result is parsed by RefCodec and compared field by field. non-trivial = session containing a buffer > 4097, a packet >= 4000 bytes, extensions on a start packet, a continuation within 8 bytes of the end-packet threshold, or a hand-made context; distinct by structural hash of the session",
        assumptions: &[
            "RefCodec is the harness's independent reading of ETSI TS 102 606",
            "S=0 packets must carry label-type bits 11 (TS 102 606; anchors of C10)",
            "total length is only constrained for packets without extensions (as the property states)",
        ],
        parts: vec![
        Box::new(EnumPart {
            name: "every-pdu-length-x-label-x-buffer-profile",
            rule: "PDU lengths 0..=65540 (thorough: every one; quick: 0..=4200, 65300..=65540 and every 13th between) x {6-byte, 3-byte, broadcast, substituted 6-byte label} x buffers {4097 throughout, 70000 throughout, 1500 throughout}; every call of the session judged by the same packet oracle",
            size: |t| sweep_lens(t, LEN_TOP) * 4 * 3,
            exhaustive: |t| t == Tier::Thorough,
            check: check_sweep,
            describe: |t, i| serde_json::to_value(sweep_case(t, i)).unwrap_or(Value::Null),
            required_classes: &["complete", "first-fragment", "intermediate", "end", "first-buffer>4097", "cont-buffer>4097", "substituted"],
        }),
        Box::new(GenPart {
            name: "sender-sessions",
            rule: "see property rule",
            cases: (480_000, 12_000_000),
            fuzz_decode: Some(crate::fuzzdec::send_case),
            strategy,
            check,
            required_classes: &[
                "complete", "first-fragment", "first-fragment-with-exts", "intermediate", "end", "first-buffer>4097",
                "cont-buffer>4097", "handmade-context", "substituted", "cont-room-for-payload-not-crc",
            ],
        })],
    }
}
