//! C06 — every emitted packet is a well-formed, length-accurate GSE packet.

use super::sender::*;
use crate::engine::{GenPart, Property, Stats, Tier};
use proptest::prelude::*;

fn strategy(t: Tier) -> BoxedStrategy<SendCase> {
    send_case(Knobs { with_exts: true, max_sends: 3, max_conts: t.pick(10, 16), tail_min: 4, handmade_pct: 15, tiny_bias: false })
}

fn check(c: &SendCase, st: &mut Stats) -> Result<(), String> {
    run_send_case(c, st, Flags { c06: true, c11: false }).map(|_| ())
}

pub fn property() -> Property {
    Property {
        id: "C06",
        rule: "sender sessions: re-use setting, 1..3 PDUs (0..=65535 bytes, any label, user protocol type or extension chains incl. final mandatory), first buffer and continuation buffers 0..=70000 drawn from size classes around every limit, some trains started from hand-made contexts; each call runs twice on clones into complementary prefills so the written set is observable; each Ok result is parsed by RefCodec and compared field by field. non-trivial = session containing a buffer > 4097, a packet >= 4000 bytes, extensions on a start packet, a continuation within 8 bytes of the end-packet threshold, or a hand-made context; distinct by structural hash of the session",
        assumptions: &[
            "RefCodec is the harness's independent reading of ETSI TS 102 606",
            "S=0 packets must carry label-type bits 11 (TS 102 606; anchors of C10)",
            "total length is only constrained for packets without extensions (as the property states)",
        ],
        parts: vec![Box::new(GenPart {
            name: "sender-sessions",
            rule: "see property rule",
            cases: (480_000, 12_000_000),
            fuzz_decode: Some(crate::fuzzdec::send_case),
            strategy,
            check,
            required_classes: &[
                "complete", "first-fragment", "first-fragment-with-exts", "intermediate", "end", "first-buffer>4097",
                "cont-buffer>4097", "handmade-context", "substituted", "cont-room-for-payload-not-crc",
            ],
        })],
    }
}
