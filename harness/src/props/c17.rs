//! C17 — the bundled fragment memory honours the memory-trait contract.
//! Reference model: a bag of free buffers + at most one saved context per slot.

use crate::engine::{bx, guard, hash_of, EnumPart, GenPart, Property, Stats, Tier};
use dvb_gse_rust::gse_decap::{DecapContext, DecapMemoryError, GseDecapMemory, SimpleGseMemory};
use dvb_gse_rust::label::Label;
use proptest::prelude::*;
use serde::{Deserialize, Serialize};
use serde_json::{json, Value};

#[derive(Clone, Copy, Debug, PartialEq, Eq, Hash, Serialize, Deserialize)]
pub enum Op {
    /// provision a brand-new buffer: 0 = exactly the configured size, 1 = larger, 2 = too small
    ProvNew(u8),
    /// give back the oldest bare buffer the harness holds (or a new one if none)
    ProvHand,
    NewPdu,
    NewFrag(u8),
    TakeFrag(u8),
    /// save the most recent (context, buffer) pair the harness holds, unchanged
    SaveLast,
    /// save the oldest pair
    SaveOldest,
    /// save the most recent buffer (pair or bare) under a fresh context for this id
    SaveFresh(u8),
}

const PDU_SIZE: usize = 6;

struct Model {
    k: usize,
    cap: usize,
    free: Vec<usize>,                          // lengths (unique)
    slots: Vec<Option<(DecapContext, usize)>>, // context + buffer length
}

struct Hand {
    pairs: Vec<(DecapContext, Box<[u8]>)>,
    bare: Vec<Box<[u8]>>,
    next_len: usize,
    next_small: usize,
    next_tag: u16,
    /// too-small buffers the harness still holds, by length (identity = length, so one per length)
    small_live: [bool; PDU_SIZE],
}

fn tag_of(len: usize) -> u8 {
    (len as u8).wrapping_mul(37).wrapping_add(11)
}

fn fresh_buf(len: usize) -> Box<[u8]> {
    vec![tag_of(len); len].into_boxed_slice()
}

fn intact(b: &[u8]) -> bool {
    let t = tag_of(b.len());
    b.iter().all(|x| *x == t)
}

fn fresh_ctx(id: u8, hand: &mut Hand) -> DecapContext {
    hand.next_tag += 1;
    DecapContext::new(Label::ThreeBytesLabel([id, 0, 1]), 0x0800, id, hand.next_tag, 1, false, vec![])
}

fn probe_capacity(k: usize) -> usize {
    let mut m = SimpleGseMemory::new(k, PDU_SIZE, 0, 0);
    let mut n = 0;
    while n < 1000 {
        match m.provision_storage(fresh_buf(PDU_SIZE + 1 + n)) {
            Ok(()) => n += 1,
            Err(_) => break,
        }
    }
    n
}

fn run_sequence(k: usize, ops: &[Op], st: &mut Stats) -> Result<bool, String> {
    let cap = probe_capacity(k);
    let mut mem = SimpleGseMemory::new(k, PDU_SIZE, 0, 0);
    let mut model = Model { k, cap, free: vec![], slots: vec![None; k] };
    let mut hand = Hand { pairs: vec![], bare: vec![], next_len: PDU_SIZE, next_small: 0, next_tag: 0, small_live: [false; PDU_SIZE] };
    let mut interesting = false;
    let mut aliasing_take_after_save = false;

    macro_rules! bad {
        ($sig:expr, $i:expr, $($arg:tt)*) => {{
            st.violation($sig, format!("K={} ops={:?} at op #{}: {}", k, ops, $i, format!($($arg)*)))?;
            return Ok(interesting);
        }};
    }

    for (i, op) in ops.iter().enumerate() {
        match *op {
            Op::ProvNew(_) | Op::ProvHand => {
                let buf = match *op {
                    Op::ProvHand if !hand.bare.is_empty() => {
                        let b = hand.bare.remove(0);
                        if b.len() < PDU_SIZE {
                            hand.small_live[b.len()] = false;
                        }
                        b
                    }
                    Op::ProvNew(2) => {
                        hand.next_small = hand.next_small % (PDU_SIZE - 1) + 1;
                        fresh_buf(hand.next_small)
                    }
                    _ => {
                        // unique lengths: the first one is exactly the configured size, then larger
                        let l = hand.next_len;
                        hand.next_len += 1;
                        fresh_buf(l)
                    }
                };
                let len = buf.len();
                let full = model.free.len() == model.cap;
                let small = len < PDU_SIZE;
                let r = match guard(|| mem.provision_storage(buf)) {
                    Ok(r) => r,
                    Err(p) => bad!("provision", i, "provision_storage panicked: {}", p.0),
                };
                match r {
                    Ok(()) => {
                        if full || small {
                            bad!("provision", i, "provision_storage({} bytes) accepted although free list full={} / too small={}", len, full, small);
                        }
                        model.free.push(len);
                    }
                    Err(DecapMemoryError::StorageOverflow(b)) => {
                        interesting = true;
                        st.class("refusal-overflow");
                        if !full {
                            bad!("provision", i, "StorageOverflow although {} of {} free places are used", model.free.len(), model.cap);
                        }
                        if b.len() != len || !intact(&b) {
                            bad!("provision", i, "StorageOverflow handed back a different buffer ({} bytes for {})", b.len(), len);
                        }
                        if !small {
                            hand.bare.push(b);
                        } else if !hand.small_live[len] {
                            hand.small_live[len] = true;
                            hand.bare.push(b);
                        }
                    }
                    Err(DecapMemoryError::BufferTooSmall(b)) => {
                        interesting = true;
                        st.class("refusal-too-small");
                        if !small {
                            bad!("provision", i, "BufferTooSmall for a {}-byte buffer, configured size {}", len, PDU_SIZE);
                        }
                        if b.len() != len || !intact(&b) {
                            bad!("provision", i, "BufferTooSmall handed back a different buffer");
                        }
                        // the caller still owns it and may save it under a context (the trait does not
                        // restrict the size of a saved buffer): new_frag must then reuse it like any other
                        if !hand.small_live[len] {
                            hand.small_live[len] = true;
                            st.class("undersized-buffer-kept");
                            hand.bare.push(b);
                        }
                    }
                    Err(e) => bad!("provision", i, "unexpected error {:?}", e),
                }
            }
            Op::NewPdu => {
                let r = match guard(|| mem.new_pdu()) {
                    Ok(r) => r,
                    Err(p) => bad!("new_pdu", i, "new_pdu panicked: {}", p.0),
                };
                match r {
                    Ok(b) => {
                        let Some(pos) = model.free.iter().position(|l| *l == b.len()) else {
                            bad!("new_pdu", i, "new_pdu returned a {}-byte buffer that is not free in the model (free: {:?})", b.len(), model.free);
                        };
                        if !intact(&b) {
                            bad!("new_pdu", i, "buffer content modified by the memory");
                        }
                        model.free.swap_remove(pos);
                        hand.bare.push(b);
                    }
                    Err(DecapMemoryError::StorageUnderflow) => {
                        interesting = true;
                        st.class("refusal-underflow");
                        if !model.free.is_empty() {
                            bad!("new_pdu", i, "StorageUnderflow although {} buffers are free", model.free.len());
                        }
                    }
                    Err(e) => bad!("new_pdu", i, "unexpected error {:?}", e),
                }
            }
            Op::NewFrag(id) => {
                let ctx = fresh_ctx(id, &mut hand);
                let idx = id as usize % model.k;
                let r = match guard(|| mem.new_frag(ctx.clone())) {
                    Ok(r) => r,
                    Err(p) => bad!("new_frag", i, "new_frag panicked: {}", p.0),
                };
                match r {
                    Ok((c, b)) => {
                        if c != ctx {
                            bad!("new_frag", i, "new_frag returned a different context");
                        }
                        if !intact(&b) {
                            bad!("new_frag", i, "buffer content modified by the memory");
                        }
                        match model.slots[idx].take() {
                            Some((_, l)) => {
                                interesting = true;
                                st.class("new_frag-replaces-slot");
                                st.class_if(l < PDU_SIZE, "new_frag-on-slot-holding-undersized-buffer");
                                if b.len() != l {
                                    bad!("new_frag", i, "slot {} was occupied (buffer {}), new_frag must reuse it but returned buffer {}", idx, l, b.len());
                                }
                            }
                            None => {
                                let Some(pos) = model.free.iter().position(|l| *l == b.len()) else {
                                    bad!("new_frag", i, "new_frag returned a {}-byte buffer that is not free in the model (free: {:?}, slots {:?})", b.len(), model.free, model.slots.iter().map(|s| s.as_ref().map(|x| x.1)).collect::<Vec<_>>());
                                };
                                model.free.swap_remove(pos);
                            }
                        }
                        hand.pairs.push((c, b));
                    }
                    Err(DecapMemoryError::StorageUnderflow) => {
                        interesting = true;
                        st.class("refusal-underflow");
                        if model.slots[idx].is_some() || !model.free.is_empty() {
                            bad!("new_frag", i, "StorageUnderflow although slot occupied={} / {} free buffers", model.slots[idx].is_some(), model.free.len());
                        }
                    }
                    Err(e) => bad!("new_frag", i, "unexpected error {:?}", e),
                }
            }
            Op::TakeFrag(id) => {
                let idx = id as usize % model.k;
                let r = match guard(|| mem.take_frag(id)) {
                    Ok(r) => r,
                    Err(p) => bad!("take_frag", i, "take_frag panicked: {}", p.0),
                };
                let expect_hit = matches!(&model.slots[idx], Some((c, _)) if c.frag_id == id);
                if model.slots[idx].is_some() && !expect_hit {
                    st.class("take-with-aliasing-id");
                    aliasing_take_after_save = true;
                }
                match r {
                    Ok((c, b)) => {
                        if !expect_hit {
                            bad!("take_frag", i, "take_frag({}) returned a context (frag id {}) although none is saved under that id", id, c.frag_id);
                        }
                        let (mc, ml) = model.slots[idx].take().unwrap();
                        if c != mc || b.len() != ml || !intact(&b) {
                            bad!("take_frag", i, "take_frag({}) returned context/buffer different from the one last saved", id);
                        }
                        if aliasing_take_after_save {
                            interesting = true;
                            st.class("save-aliasing-take-right-take");
                        }
                        hand.pairs.push((c, b));
                    }
                    Err(DecapMemoryError::UndefinedId) => {
                        interesting = true;
                        st.class("refusal-undefined-id");
                        if expect_hit {
                            bad!("take_frag", i, "take_frag({}) -> UndefinedId although a context is saved under that id", id);
                        }
                    }
                    Err(e) => bad!("take_frag", i, "unexpected error {:?}", e),
                }
            }
            Op::SaveLast | Op::SaveOldest | Op::SaveFresh(_) => {
                let pair = match *op {
                    Op::SaveLast => hand.pairs.pop(),
                    Op::SaveOldest => {
                        if hand.pairs.is_empty() {
                            None
                        } else {
                            Some(hand.pairs.remove(0))
                        }
                    }
                    Op::SaveFresh(id) => {
                        let b = if let Some(b) = hand.bare.pop() { Some(b) } else { hand.pairs.pop().map(|p| p.1) };
                        b.map(|b| (fresh_ctx(id, &mut hand), b))
                    }
                    _ => None,
                };
                let Some((c, b)) = pair else {
                    st.class("noop");
                    continue;
                };
                let idx = c.frag_id as usize % model.k;
                let len = b.len();
                let cc = c.clone();
                let r = match guard(|| mem.save_frag((c, b))) {
                    Ok(r) => r,
                    Err(p) => bad!("save_frag", i, "save_frag panicked: {}", p.0),
                };
                match r {
                    Ok(()) => {
                        if model.slots[idx].is_some() {
                            bad!("save_frag", i, "save_frag into occupied slot {} accepted", idx);
                        }
                        model.slots[idx] = Some((cc, len));
                    }
                    Err(DecapMemoryError::MemoryCorrupted) => {
                        interesting = true;
                        st.class("refusal-occupied-slot");
                        if model.slots[idx].is_none() {
                            bad!("save_frag", i, "save_frag into empty slot {} refused", idx);
                        }
                        // fate of the refused buffer is unspecified by the trait: forget it
                    }
                    Err(e) => bad!("save_frag", i, "unexpected error {:?}", e),
                }
            }
        }
    }
    // final drain: every saved context comes back under its id, every free buffer through new_pdu
    let n = ops.len();
    for idx in 0..model.k {
        if let Some((mc, ml)) = model.slots[idx].take() {
            match guard(|| mem.take_frag(mc.frag_id)) {
                Ok(Ok((c, b))) if c == mc && b.len() == ml && intact(&b) => {}
                o => bad!("drain", n, "drain: context saved under id {} (buffer {}) not recovered: {:?}", mc.frag_id, ml, o.map(|r| r.map(|(c, b)| (c.frag_id, b.len()))).map_err(|p| p.0)),
            }
        }
    }
    for id in 0..=255u8 {
        if let Ok(Ok((c, b))) = guard(|| mem.take_frag(id)) {
            bad!("drain", n, "drain: memory holds a context (id {}, buffer {}) the model does not know", c.frag_id, b.len());
        }
    }
    let mut got = vec![];
    loop {
        match guard(|| mem.new_pdu()) {
            Ok(Ok(b)) => {
                if !intact(&b) {
                    bad!("drain", n, "drain: buffer content modified");
                }
                got.push(b.len());
                if got.len() > 10_000 {
                    break;
                }
            }
            Ok(Err(_)) => break,
            Err(p) => bad!("drain", n, "drain: new_pdu panicked: {}", p.0),
        }
    }
    got.sort();
    let mut want = model.free.clone();
    want.sort();
    if got != want {
        bad!("drain", n, "drain: free buffers {:?}, model expects {:?}", got, want);
    }
    Ok(interesting)
}

// ---- enumerated -------------------------------------------------------------------------------

fn alphabet(k: usize, d: u64) -> Op {
    let ids = [0u8, 1, k as u8, k as u8 + 1];
    match d {
        0 => Op::ProvNew(0),
        1 => Op::ProvNew(2),
        2 => Op::ProvHand,
        3 => Op::NewPdu,
        4..=7 => Op::NewFrag(ids[(d - 4) as usize]),
        8..=11 => Op::TakeFrag(ids[(d - 8) as usize]),
        12 => Op::SaveLast,
        13 => Op::SaveOldest,
        14 => Op::SaveFresh(0),
        _ => Op::SaveFresh(k as u8),
    }
}

/// quick: depth 5 for K = 1..=4; thorough: depth 7 for K = 1..=4
fn enum_size(t: Tier) -> u64 {
    4 * 16u64.pow(enum_depth(t))
}

fn enum_depth(t: Tier) -> u32 {
    t.pick(5, 7)
}

fn enum_decode(t: Tier, i: u64) -> (usize, Vec<Op>) {
    let depth = enum_depth(t);
    let k = (i / 16u64.pow(depth)) as usize + 1;
    let mut j = i % 16u64.pow(depth);
    let mut ops = vec![];
    for _ in 0..depth {
        ops.push(alphabet(k, j % 16));
        j /= 16;
    }
    (k, ops)
}

fn check_enum(i: u64, st: &mut Stats) -> Result<(), String> {
    let (k, ops) = enum_decode(st.tier, i);
    if run_sequence(k, &ops, st)? {
        st.nontrivial_distinct(1);
    }
    Ok(())
}

fn desc_enum(t: Tier, i: u64) -> Value {
    let (k, ops) = enum_decode(t, i);
    json!({"slots": k, "ops": format!("{:?}", ops)})
}

// ---- generated ----------------------------------------------------------------------------------

#[derive(Clone, Debug, PartialEq, Eq, Hash, Serialize, Deserialize)]
pub struct RandCase {
    pub k: u8,
    pub ops: Vec<Op>,
}

fn rand_strategy(t: Tier) -> BoxedStrategy<RandCase> {
    let id = prop_oneof![6 => 0u8..8, 2 => any::<u8>(), 1 => Just(255u8), 1 => Just(128u8)];
    let op = prop_oneof![
        3 => (0u8..3).prop_map(Op::ProvNew),
        2 => Just(Op::ProvHand),
        2 => Just(Op::NewPdu),
        4 => id.clone().prop_map(Op::NewFrag),
        4 => id.clone().prop_map(Op::TakeFrag),
        3 => Just(Op::SaveLast),
        1 => Just(Op::SaveOldest),
        2 => id.prop_map(Op::SaveFresh),
    ];
    bx((prop_oneof![5 => 1u8..=4, 1 => Just(0u8)], prop::collection::vec(op, 1..t.pick(80, 200))).prop_map(|(k, ops)| RandCase { k, ops }))
}

fn check_rand(c: &RandCase, st: &mut Stats) -> Result<(), String> {
    st.class_if(c.k == 0, "256-slots");
    if run_sequence(crate::common::slots_of(c.k), &c.ops, st)? {
        st.nontrivial(hash_of(c));
    }
    st.sample(|| json!({"slots": c.k, "ops": format!("{:?}", c.ops)}));
    Ok(())
}

pub fn property() -> Property {
    Property {
        id: "C17",
        rule: "enumerated: every sequence over a 16-operation alphabet {provision ok/too small/give back, new_pdu, new_frag(id), take_frag(id), save last/oldest/fresh(id)} with ids {0,1,K,K+1} (aliasing pairs) to depth 5 (quick) / 7 (thorough) for memories of 1..4 slots; generated: sequences of up to 80/200 operations, ids 0..=255, K=1..4. oracle: reference model (bag of free buffers + one context per slot) compared after every operation — result kind, identity (unique length) and content tag of every buffer, equality of contexts — and a final drain through the public trait. non-trivial = the sequence contains a refusal, a slot replacement by new_frag, or save -> take with aliasing id -> take with the right id",
        assumptions: &[
            "free-list capacity is probed on a fresh instance, not assumed",
            "any free buffer may be returned by new_pdu/new_frag; when a provisioned buffer is both too small and one too many either error is accepted; the fate of a buffer passed to a refused save_frag is not judged",
            "slot = frag id modulo the number of slots, as the bundled memory documents",
        ],
        parts: vec![
            Box::new(EnumPart {
                name: "all-sequences-bounded-depth",
                rule: "see property rule",
                size: enum_size,
                exhaustive: |_| true,
                check: check_enum,
                describe: desc_enum,
                required_classes: &["refusal-overflow", "refusal-too-small", "refusal-underflow", "refusal-undefined-id", "new_frag-replaces-slot", "new_frag-on-slot-holding-undersized-buffer", "take-with-aliasing-id", "save-aliasing-take-right-take"],
            }),
            Box::new(GenPart {
                name: "random-sequences",
                rule: "see property rule",
                cases: (600_000, 10_000_000),
                fuzz_decode: Some(crate::fuzzdec::c17_case),
                strategy: rand_strategy,
                check: check_rand,
                required_classes: &["refusal-overflow", "refusal-undefined-id", "refusal-occupied-slot", "new_frag-replaces-slot", "new_frag-on-slot-holding-undersized-buffer", "save-aliasing-take-right-take"],
            }),
        ],
    }
}
