//! C07 — concurrent reassemblies are isolated under every interleaving.

use crate::common::*;
use crate::engine::{bx, hash_of, EnumPart, GenPart, Property, Stats, Tier};
use crate::oracle::refcodec::RefPacket;
use dvb_gse_rust::gse_decap::{DecapStatus, GseDecapMemory};
use proptest::prelude::*;
use serde::{Deserialize, Serialize};
use serde_json::{json, Value};
use std::sync::OnceLock;

#[derive(Clone, Debug, PartialEq, Eq, Hash, Serialize, Deserialize)]
pub struct TrainSpec {
    pub id: u8,
    pub lab: Lab,
    pub ptype: u16,
    pub pdu: Pdu,
    /// payload sizes of first + intermediates (the end packet carries the rest); length = fragments - 1
    pub cuts: Vec<u16>,
    /// the first fragment carries an extension chain (part of the PDU's own metadata)
    #[serde(default)]
    pub ext: bool,
}

#[derive(Clone, Copy, Debug, PartialEq, Eq, Hash, Serialize, Deserialize)]
pub enum Stray {
    /// intermediate packet whose id aliases (same slot, other id) tracked train t
    InterAlias(u8),
    EndAlias(u8),
    /// intermediate / end packet of an id nobody uses (free slot when there is one)
    InterUnknown,
    EndUnknown,
    CompleteBroadcast,
    CompleteLabel,
    /// complete new train (first+end, back to back) on the SAME id as tracked train t: restart
    RestartSame(u8),
    /// complete new train (first+end, back to back) on an id aliasing tracked train t: claims its slot
    ClaimAlias(u8),
}

#[derive(Clone, Debug, PartialEq, Eq, Hash, Serialize, Deserialize)]
pub struct Scenario {
    /// slots of the receiver memory (2..=8, 128, 256)
    pub k: u16,
    pub trains: Vec<TrainSpec>,
    /// order-preserving merge: sequence of train indices
    pub merge: Vec<u8>,
    /// (position in the merged sequence, stray)
    pub strays: Vec<(u16, Stray)>,
    /// bit t: train t's first fragment goes out with a re-use label whenever the start/complete
    /// packet preceding it in the final sequence carried the same label (what a sender with
    /// label re-use enabled does)
    #[serde(default)]
    pub reuse_mask: u8,
    /// present the whole sequence as one frame buffer walked by the consumed lengths (instead of
    /// one exactly sized buffer per packet)
    #[serde(default)]
    pub as_frame: bool,
    /// storages provisioned beyond the minimum (tracked trains + 1): 0..=2
    #[serde(default = "two")]
    pub spare: u8,
}

fn two() -> u8 {
    2
}

#[derive(Clone, Debug)]
enum Role {
    Tracked { t: usize, is_first: bool, is_end: bool },
    StrayPkt,
    Complete { pdu: Vec<u8>, lab: Lab },
    StrayFirst { tag: usize, id: u8 },
    StrayEnd { tag: usize, id: u8, pdu: Vec<u8>, lab: Lab },
}

struct Item {
    bytes: Vec<u8>,
    role: Role,
}

fn s0(start: bool, end: bool, id: u8, payload: Vec<u8>, crc: Option<u32>) -> Vec<u8> {
    RefPacket { start, end, lt: 3, frag_id: Some(id), total_len: None, label: vec![], exts: vec![], ptype: None, first_type: None, payload, crc }.encode(false)
}

fn train_exts(t: &TrainSpec) -> Vec<ExtSpec> {
    if t.ext {
        vec![ExtSpec { id: 0x0300 | t.id as u16, data: vec![t.id, 1, 2, 3] }, ExtSpec { id: 0x0100 | (t.ptype & 0xFF), data: vec![] }]
    } else {
        vec![]
    }
}

fn alias_id(id: u8, k: u16) -> u8 {
    if id as u16 + k <= 255 {
        (id as u16 + k) as u8
    } else if id as u16 >= k {
        (id as u16 - k) as u8
    } else {
        unreachable!("no aliasing id exists with {} slots (callers map aliasing strays to unknown-id strays)", k)
    }
}

fn check_scenario(sc: &Scenario, st: &mut Stats) -> Result<(), String> {
    let k = sc.k as usize;
    // build trains
    let pdus: Vec<Vec<u8>> = sc.trains.iter().map(|t| t.pdu.bytes()).collect();
    let mut pkts: Vec<Vec<Vec<u8>>> = vec![];
    let mut pkts_reuse: Vec<Vec<Vec<u8>>> = vec![];
    for (t, p) in sc.trains.iter().zip(pdus.iter()) {
        let cuts: Vec<usize> = t.cuts.iter().map(|c| *c as usize).collect();
        let exts = train_exts(t);
        pkts.push(ref_train_ext(t.lab, t.ptype, t.id, p, &cuts, &exts));
        pkts_reuse.push(ref_train_ext(Lab::ReUse, t.ptype, t.id, p, &cuts, &exts));
    }
    // merged sequence
    let mut next = vec![0usize; sc.trains.len()];
    let mut seq: Vec<Item> = vec![];
    for m in &sc.merge {
        let t = *m as usize;
        if t >= pkts.len() || next[t] >= pkts[t].len() {
            continue;
        }
        let i = next[t];
        next[t] += 1;
        seq.push(Item { bytes: pkts[t][i].clone(), role: Role::Tracked { t, is_first: i == 0, is_end: i + 1 == pkts[t].len() } });
    }
    for t in 0..pkts.len() {
        while next[t] < pkts[t].len() {
            let i = next[t];
            next[t] += 1;
            seq.push(Item { bytes: pkts[t][i].clone(), role: Role::Tracked { t, is_first: i == 0, is_end: i + 1 == pkts[t].len() } });
        }
    }
    let interleaved = {
        // not a plain concatenation: some train's packets are not contiguous
        let order: Vec<usize> = seq.iter().filter_map(|i| if let Role::Tracked { t, .. } = i.role { Some(t) } else { None }).collect();
        let mut changes = 0;
        for w in order.windows(2) {
            if w[0] != w[1] {
                changes += 1;
            }
        }
        changes >= sc.trains.len()
    };
    // free residue for "unknown" ids
    let used: Vec<usize> = sc.trains.iter().map(|t| t.id as usize % k).collect();
    let free_res = (0..k).find(|r| !used.contains(r));
    let unknown_id = |fallback_t: usize| -> u8 {
        match free_res {
            Some(r) => (r + k) as u8, // an id nobody uses, in a free slot
            None => alias_id(sc.trains[fallback_t % sc.trains.len()].id, sc.k), // all slots used: necessarily aliases
        }
    };
    // insert strays (stable by position)
    let mut strays = sc.strays.clone();
    strays.sort_by_key(|s| s.0);
    let base_len = seq.len();
    let mut inserted = 0usize;
    let mut stray_tag = 100usize;
    for (pos, s) in strays {
        let at = (idx16(pos, base_len + 1) + inserted).min(seq.len());
        let tr = |t: u8| &sc.trains[t as usize % sc.trains.len()];
        // with 256 slots no id aliases another: the aliasing strays become strays of an id nobody uses
        let s = if k > 255 {
            match s {
                Stray::InterAlias(_) => Stray::InterUnknown,
                Stray::EndAlias(_) => Stray::EndUnknown,
                Stray::ClaimAlias(_) => Stray::CompleteLabel,
                o => o,
            }
        } else {
            s
        };
        let items: Vec<Item> = match s {
            Stray::InterAlias(t) => vec![Item { bytes: s0(false, false, alias_id(tr(t).id, sc.k), vec![0xAB; 5], None), role: Role::StrayPkt }],
            Stray::EndAlias(t) => vec![Item { bytes: s0(false, true, alias_id(tr(t).id, sc.k), vec![0xCD; 3], Some(0x0BAD_F00D)), role: Role::StrayPkt }],
            Stray::InterUnknown => vec![Item { bytes: s0(false, false, unknown_id(1), vec![0x11; 4], None), role: Role::StrayPkt }],
            Stray::EndUnknown => vec![Item { bytes: s0(false, true, unknown_id(1), vec![0x22; 2], Some(1)), role: Role::StrayPkt }],
            Stray::CompleteBroadcast => {
                let p = b"complete-broadcast".to_vec();
                vec![Item { bytes: ref_complete(Lab::Broadcast, 0x86DD, &p, &[], false), role: Role::Complete { pdu: p, lab: Lab::Broadcast } }]
            }
            Stray::CompleteLabel => {
                let p = b"complete-6".to_vec();
                let l = Lab::Six([9, 9, 9, 9, 9, 1]);
                vec![Item { bytes: ref_complete(l, 0x0800, &p, &[], false), role: Role::Complete { pdu: p, lab: l } }]
            }
            Stray::RestartSame(t) | Stray::ClaimAlias(t) => {
                let id = if matches!(s, Stray::RestartSame(_)) { tr(t).id } else { alias_id(tr(t).id, sc.k) };
                stray_tag += 1;
                let p = pdu_bytes(17, 1000 + stray_tag as u32);
                let l = Lab::Three([7, 7, stray_tag as u8]);
                let tp = ref_train(l, 0x0801, id, &p, &[6]);
                vec![
                    Item { bytes: tp[0].clone(), role: Role::StrayFirst { tag: stray_tag, id } },
                    Item { bytes: tp[1].clone(), role: Role::StrayEnd { tag: stray_tag, id, pdu: p, lab: l } },
                ]
            }
        };
        let n = items.len();
        for (j, it) in items.into_iter().enumerate() {
            seq.insert(at + j, it);
        }
        inserted += n;
    }

    // a sender with label re-use enabled: a tracked first fragment whose label equals the label in
    // force goes out with a re-use label (and its whole train is the re-use variant: the CRC
    // then covers no label bytes)
    {
        let mut eff: Option<Lab> = None;
        let mut variant = vec![false; sc.trains.len()];
        let mut idx = vec![0usize; sc.trains.len()];
        let mut substituted = false;
        for it in seq.iter_mut() {
            match &it.role {
                Role::Tracked { t, is_first, .. } => {
                    let t = *t;
                    let lab = sc.trains[t].lab;
                    if *is_first {
                        idx[t] = 0;
                        let same_len = pkts_reuse[t].len() == pkts[t].len();
                        variant[t] = same_len && sc.reuse_mask & (1 << t) != 0 && lab.is_addr() && eff == Some(lab);
                        substituted |= variant[t];
                        match lab {
                            Lab::Six(_) | Lab::Three(_) => eff = Some(lab),
                            Lab::Broadcast => eff = None,
                            Lab::ReUse => {}
                        }
                    }
                    if variant[t] {
                        it.bytes = pkts_reuse[t][idx[t]].clone();
                    }
                    idx[t] += 1;
                }
                Role::Complete { lab, .. } => eff = if lab.is_addr() { Some(*lab) } else { None },
                Role::StrayFirst { .. } => {}
                Role::StrayEnd { lab, .. } => eff = Some(*lab),
                Role::StrayPkt => {}
            }
        }
        st.class_if(substituted, "first-fragment-with-re-use-label");
    }

    // reference slot model: slot -> (id, owner tag); tags 0..n are tracked trains, >= 100 stray trains
    let mut slot: Vec<Option<(u8, usize)>> = vec![None; k];
    let mut lost = vec![false; sc.trains.len()];
    let mut alias_hit_open = false;
    let mut preempt = false;

    let max_pdu = pdus.iter().map(|p| p.len()).max().unwrap_or(0).max(32);
    let n_bufs = (sc.trains.len() + 1 + sc.spare as usize).min(k + 2);
    let mut d = new_simple_dec(k, max_pdu, &vec![max_pdu; n_bufs], TableManager::all());
    let frame: Vec<u8> = if sc.as_frame { seq.iter().flat_map(|i| i.bytes.iter().copied()).collect() } else { vec![] };
    let mut frame_off = 0usize;
    st.class_if(sc.as_frame, "walked-as-one-frame");
    let mut delivered = vec![0u32; sc.trains.len()];

    let desc = |i: usize, it: &Item| format!("packet #{} {:?} {}", i, it.role, hex(&it.bytes));
    for (i, it) in seq.iter().enumerate() {
        // model first
        enum Expect {
            Fragmented(usize),
            Deliver(Vec<u8>, Lab, u16, Vec<(u16, Vec<u8>)>),
            NoDelivery,
        }
        let expect = match &it.role {
            Role::Tracked { t, is_first, is_end } => {
                let id = sc.trains[*t].id;
                let r = id as usize % k;
                if *is_first {
                    if let Some((oid, otag)) = slot[r] {
                        if otag < lost.len() && oid != id {
                            lost[otag] = true; // cannot happen with distinct residues, kept for generality
                        }
                    }
                    slot[r] = Some((id, *t));
                    Expect::Fragmented(*t)
                } else if slot[r] == Some((id, *t)) && !lost[*t] {
                    if *is_end {
                        slot[r] = None;
                        Expect::Deliver(pdus[*t].clone(), sc.trains[*t].lab, sc.trains[*t].ptype, train_exts(&sc.trains[*t]).iter().map(|e| (e.id, e.data.clone())).collect())
                    } else {
                        Expect::Fragmented(*t)
                    }
                } else {
                    Expect::NoDelivery
                }
            }
            Role::StrayPkt => {
                let id = it.bytes[2];
                if let Some((oid, _)) = slot[id as usize % k] {
                    if oid != id {
                        alias_hit_open = true;
                        st.class("stray-aliases-open-slot");
                    }
                }
                Expect::NoDelivery
            }
            Role::Complete { pdu, lab } => Expect::Deliver(pdu.clone(), *lab, if *lab == Lab::Broadcast { 0x86DD } else { 0x0800 }, vec![]),
            Role::StrayFirst { tag, id } => {
                let r = *id as usize % k;
                if let Some((_, otag)) = slot[r] {
                    if otag < lost.len() {
                        lost[otag] = true;
                        preempt = true;
                        st.class("first-fragment-preempts-open-train");
                    }
                }
                slot[r] = Some((*id, *tag));
                Expect::Fragmented(usize::MAX)
            }
            Role::StrayEnd { id, pdu, lab, .. } => {
                slot[*id as usize % k] = None;
                Expect::Deliver(pdu.clone(), *lab, 0x0801, vec![])
            }
        };
        let r = if sc.as_frame { call_decap(&mut d, &frame[frame_off..]) } else { call_decap(&mut d, &it.bytes) };
        if sc.as_frame {
            let used = match &r {
                Ok(Ok((_, n))) | Ok(Err((_, n))) => *n,
                Err(_) => it.bytes.len(),
            };
            if used != it.bytes.len() {
                return st.violation("consumed", format!("{}: inside a frame the call consumed {} bytes, the packet has {} ({})", desc(i, it), used, it.bytes.len(), show_dec(&r)));
            }
            frame_off += it.bytes.len();
        }
        match (&expect, &r) {
            (_, Err(p)) => return st.violation(&format!("panic {}", p.site()), format!("{}: decap panicked: {}", desc(i, it), p.0)),
            (Expect::Fragmented(t), Ok(Ok((DecapStatus::FragmentedPkt(md), n)))) => {
                if *n != it.bytes.len() {
                    return st.violation("consumed", format!("{}: consumed {} of {}", desc(i, it), n, it.bytes.len()));
                }
                if *t != usize::MAX {
                    let want: Vec<(u16, Vec<u8>)> = train_exts(&sc.trains[*t]).iter().map(|e| (e.id, e.data.clone())).collect();
                    let got: Vec<(u16, Vec<u8>)> = md.extensions().iter().map(super::c13::ext_bytes).collect();
                    if got != want {
                        return st.violation("fragment-metadata", format!("{}: fragmented status carries extensions {:?}, the train has {:?}", desc(i, it), got, want));
                    }
                    st.class_if(!want.is_empty(), "train-with-extensions");
                }
                if *t != usize::MAX && (Lab::of(&md.label()) != sc.trains[*t].lab || md.protocol_type() != sc.trains[*t].ptype) {
                    return st.violation("fragment-metadata", format!("{}: fragmented status carries {:?}/{:#06x}, the train has {:?}/{:#06x}", desc(i, it), md.label(), md.protocol_type(), sc.trains[*t].lab, sc.trains[*t].ptype));
                }
            }
            (Expect::Fragmented(_), o) => return st.violation("fragment-rejected", format!("{}: a packet of a live train must return FragmentedPkt, got {}", desc(i, it), show_dec(&Ok(o.clone().unwrap())))),
            (Expect::Deliver(pdu, lab, ptype, exts), Ok(Ok((DecapStatus::CompletedPkt(b, md), n)))) => {
                let got_exts: Vec<(u16, Vec<u8>)> = md.extensions().iter().map(super::c13::ext_bytes).collect();
                if &got_exts != exts {
                    return st.violation("wrong-delivery-extensions", format!("{}: delivered with extensions {:?}, the PDU's own are {:?}", desc(i, it), got_exts, exts));
                }
                if md.pdu_len() != pdu.len() || b[..pdu.len().min(b.len())] != pdu[..] || Lab::of(&md.label()) != *lab || md.protocol_type() != *ptype || *n != it.bytes.len() {
                    return st.violation("wrong-delivery", format!("{}: delivered pdu_len {} label {:?} ptype {:#06x}, expected pdu_len {} {:?} {:#06x} (bytes equal: {})", desc(i, it), md.pdu_len(), md.label(), md.protocol_type(), pdu.len(), lab, ptype, b[..pdu.len().min(b.len())] == pdu[..]));
                }
                if let Role::Tracked { t, .. } = it.role {
                    delivered[t] += 1;
                }
                let _ = d.memory.provision_storage(b.clone());
            }
            (Expect::Deliver(..), o) => return st.violation("not-delivered", format!("{}: must be delivered here, got {}", desc(i, it), show_dec(&Ok(o.clone().unwrap())))),
            (Expect::NoDelivery, Ok(Ok((DecapStatus::CompletedPkt(_, md), _)))) => {
                return st.violation("stray-delivery", format!("{}: a stray / orphaned packet produced a delivery (pdu_len {}, label {:?})", desc(i, it), md.pdu_len(), md.label()));
            }
            (Expect::NoDelivery, _) => {}
        }
    }
    for t in 0..sc.trains.len() {
        let want = if lost[t] { 0 } else { 1 };
        if delivered[t] != want {
            return st.violation("delivery-count", format!("train {} (id {}) delivered {} times, expected {} (lost by restart/claim: {})", t, sc.trains[t].id, delivered[t], want, lost[t]));
        }
    }
    st.class_if(interleaved, "interleaved");
    st.class_if(sc.trains.iter().any(|t| t.cuts.first() == Some(&0)), "first-fragment-without-payload");
    if interleaved && (alias_hit_open || preempt) {
        st.nontrivial(hash_of(sc));
    }
    st.sample(|| json!({"slots": sc.k, "ids": sc.trains.iter().map(|t| t.id).collect::<Vec<_>>(), "fragments": sc.trains.iter().map(|t| t.cuts.len() + 1).collect::<Vec<_>>(), "merge": sc.merge, "strays": format!("{:?}", sc.strays)}));
    Ok(())
}

// ---- enumerated: all merges x one stray at every position ---------------------------------------

fn all_merges(counts: &[usize]) -> Vec<Vec<u8>> {
    fn rec(rem: &mut Vec<usize>, cur: &mut Vec<u8>, out: &mut Vec<Vec<u8>>) {
        if rem.iter().all(|r| *r == 0) {
            out.push(cur.clone());
            return;
        }
        for t in 0..rem.len() {
            if rem[t] > 0 {
                rem[t] -= 1;
                cur.push(t as u8);
                rec(rem, cur, out);
                cur.pop();
                rem[t] += 1;
            }
        }
    }
    let mut out = vec![];
    rec(&mut counts.to_vec(), &mut vec![], &mut out);
    out
}

fn enum_table(t: Tier) -> &'static Vec<Scenario> {
    static Q: OnceLock<Vec<Scenario>> = OnceLock::new();
    static T: OnceLock<Vec<Scenario>> = OnceLock::new();
    let build = |ks: &[u16]| {
        let configs: Vec<Vec<usize>> = vec![vec![2, 2], vec![2, 3], vec![3, 3], vec![2, 4], vec![3, 4], vec![4, 4], vec![2, 2, 2], vec![2, 2, 3], vec![2, 3, 3], vec![3, 3, 3]];
        let labs = [Lab::Six([1, 2, 3, 4, 5, 6]), Lab::Three([3, 2, 1]), Lab::Broadcast];
        let mut out = vec![];
        for &k in ks {
            for cfg in &configs {
                if cfg.len() > k as usize {
                    continue;
                }
                let trains: Vec<TrainSpec> = cfg
                    .iter()
                    .enumerate()
                    .map(|(i, f)| TrainSpec { id: i as u8, lab: labs[i % 3], ptype: 0x0800 + i as u16, pdu: Pdu { len: 11 + 7 * i as u32 + 3 * *f as u32, seed: 50 + i as u32 }, cuts: (0..f - 1).map(|j| 2 + j as u16).collect(), ext: i % 2 == 1 })
                    .collect();
                let total: usize = cfg.iter().sum();
                for (merge, same) in all_merges(cfg).into_iter().flat_map(|m| [(m.clone(), false), (m, true)]) {
                    // second pass: all trains carry the same 6-byte label and go out with re-use labels where a sender would
                    let trains: Vec<TrainSpec> = if same { trains.iter().map(|t| TrainSpec { lab: labs[0], ..t.clone() }).collect() } else { trains.clone() };
                    let reuse_mask = if same { 0xFF } else { 0 };
                    out.push(Scenario { k, trains: trains.clone(), merge: merge.clone(), strays: vec![], reuse_mask, as_frame: same, spare: 0 });
                    let mut kinds = vec![Stray::CompleteBroadcast, Stray::CompleteLabel, Stray::InterUnknown, Stray::EndUnknown];
                    for t in 0..cfg.len() as u8 {
                        kinds.extend([Stray::InterAlias(t), Stray::EndAlias(t), Stray::RestartSame(t), Stray::ClaimAlias(t)]);
                    }
                    for s in kinds {
                        for pos in 0..=total {
                            // position encoded so that idx16 maps it back exactly
                            let p = (((pos as u32) << 16) / (total as u32 + 1) + 1).min(65535) as u16;
                            out.push(Scenario { k, trains: trains.clone(), merge: merge.clone(), strays: vec![(p, s)], reuse_mask, as_frame: same != (pos % 2 == 0), spare: 0 });
                        }
                    }
                }
            }
        }
        out
    };
    match t {
        Tier::Quick => Q.get_or_init(|| build(&[2])),
        Tier::Thorough => T.get_or_init(|| build(&[2, 3, 4])),
    }
}

fn check_enum(i: u64, st: &mut Stats) -> Result<(), String> {
    let sc = &enum_table(st.tier)[i as usize];
    let before = st.distinct_nontrivial();
    check_scenario(sc, st)?;
    let _ = before;
    Ok(())
}

fn desc_enum(t: Tier, i: u64) -> Value {
    let sc = &enum_table(t)[(i as usize).min(enum_table(t).len() - 1)];
    json!({"slots": sc.k, "fragments": sc.trains.iter().map(|t| t.cuts.len() + 1).collect::<Vec<_>>(), "merge": sc.merge, "strays": format!("{:?}", sc.strays)})
}

// ---- enumerated: every pair of fragment ids ------------------------------------------------------------

/// two trains of three fragments on ids (a, b), alternating, one stray end fragment on an id aliasing
/// train 0 in the middle; memories of 128, 5 and 256 slots (pairs in different slots)
fn pair_case(i: u64) -> Option<Scenario> {
    let (a, b, shape) = ((i % 256) as u8, ((i / 256) % 256) as u8, i / 65536);
    let k: u16 = match shape {
        0 => 128,
        1 => 5,
        _ => 256,
    };
    if a as u16 % k == b as u16 % k {
        return None;
    }
    let t = |id: u8, lab: Lab, n: u32| TrainSpec { id, lab, ptype: 0x0800 + id as u16, pdu: Pdu { len: 20 + n + id as u32 % 7, seed: 60 + id as u32 }, cuts: vec![if id % 3 == 0 { 0 } else { 5 }, 6], ext: id % 2 == 1 };
    Some(Scenario {
        k,
        trains: vec![t(a, Lab::Six(ALPHA6[0]), 0), t(b, Lab::Three(ALPHA3[0]), 9)],
        merge: vec![0, 1, 0, 1, 0, 1],
        strays: vec![(0x8000, Stray::EndAlias(0))],
        reuse_mask: 0,
        as_frame: (a ^ b) & 1 == 1,
        spare: 1,
    })
}

fn check_pair(i: u64, st: &mut Stats) -> Result<(), String> {
    match pair_case(i) {
        Some(sc) => check_scenario(&sc, st),
        None => {
            st.class("skipped-pair-sharing-a-slot");
            Ok(())
        }
    }
}

// ---- generated ------------------------------------------------------------------------------------

fn gen_strategy(t: Tier) -> BoxedStrategy<Scenario> {
    let _ = t;
    let train = (lab_addr_or_bcast(), ptype_user(), 8u32..6000, pdu_seed(), prop::collection::vec(1u16..1500, 1..5), any::<bool>());
    let stray = prop_oneof![
        3 => (0u8..4).prop_map(Stray::InterAlias),
        3 => (0u8..4).prop_map(Stray::EndAlias),
        1 => Just(Stray::InterUnknown),
        1 => Just(Stray::EndUnknown),
        1 => Just(Stray::CompleteBroadcast),
        1 => Just(Stray::CompleteLabel),
        1 => (0u8..4).prop_map(Stray::RestartSame),
        1 => (0u8..4).prop_map(Stray::ClaimAlias),
    ];
    bx((prop_oneof![8 => 2u16..=8, 1 => Just(256u16), 1 => Just(128u16)], prop::collection::vec(train, 2..=4), any::<[u8; 4]>(), prop::collection::vec((any::<u16>(), stray), 0..=6), (any::<u8>(), any::<bool>(), 0u8..=2))
        .prop_flat_map(|(k, trains, idsel, strays, (reuse_mask, as_frame, spare))| {
            let n = trains.len().min(k as usize);
            // ids with pairwise distinct residues modulo k: residue r_i distinct, id = r_i + k * m_i
            let mut residues: Vec<u16> = (0..k).collect();
            let mut ids = vec![];
            for i in 0..n {
                // with many slots prefer the two ends of the id range (0, 1, .. and .., 254, 255)
                let j = if k > 8 { [0usize, residues.len() - 1, idsel[i] as usize % residues.len()][i.min(2)].min(residues.len() - 1) } else { idsel[i] as usize % residues.len() };
                let r = residues.remove(j);
                let mult = (idsel[i] / 16) as u16 % ((255 - r) / k + 1);
                ids.push((r + k * mult) as u8);
            }
            let specs: Vec<TrainSpec> = trains
                .into_iter()
                .take(n)
                .zip(ids)
                .map(|((lab, ptype, len, seed, cuts, ext), id)| {
                    let maxcut = (len as usize / (cuts.len() + 1)).max(1) as u16;
                    // one first fragment in six carries no PDU byte at all (legal: header fields only)
                    let empty_first = seed % 6 == 0;
                    TrainSpec { id, lab, ptype, pdu: Pdu { len, seed }, cuts: cuts.into_iter().enumerate().map(|(i, c)| if i == 0 && empty_first { 0 } else { c.min(maxcut) }).collect(), ext }
                })
                .collect();
            let mut merge: Vec<u8> = vec![];
            for (i, s) in specs.iter().enumerate() {
                for _ in 0..=s.cuts.len() {
                    merge.push(i as u8);
                }
            }
            (Just(k), Just(specs), Just(merge).prop_shuffle(), Just(strays), Just((reuse_mask, as_frame, spare)))
        })
        .prop_map(|(k, trains, merge, strays, (reuse_mask, as_frame, spare))| Scenario { k, trains, merge, strays, reuse_mask, as_frame, spare }))
}


// ---- starved pool: a first fragment that finds no free storage must not take one from another PDU ----

fn starved_decode(i: u64) -> (usize, usize, u8, usize, bool) {
    let k = 2 + (i % 7) as usize;
    let n = 1 + ((i / 7) % 8) as usize % (k - 1);
    let base = [0u8, 37, 128, 240][((i / 56) % 4) as usize];
    let intruder_at = ((i / 224) % 3) as usize; // after the firsts / after the intermediates of half the trains / twice
    let rev = (i / 672) % 2 == 1;
    (k, n, base, intruder_at, rev)
}

fn check_starved(i: u64, st: &mut Stats) -> Result<(), String> {
    let (k, n, base, intruder_at, rev) = starved_decode(i);
    // n open trains on ids base..base+n (distinct slots), exactly n storages: the pool is empty once all are open
    let mut d = new_simple_dec(k, 64, &vec![64; n], TableManager::all());
    let labs = [Lab::Three(ALPHA3[0]), Lab::Six(ALPHA6[0]), Lab::Broadcast];
    let trains: Vec<(u8, Lab, u16, Vec<u8>, Vec<Vec<u8>>)> = (0..n)
        .map(|j| {
            let id = base + j as u8;
            let pdu = pdu_bytes(30 + j, 700 + j as u32);
            let lab = labs[j % 3];
            let pk = ref_train(lab, 0x0800 + j as u16, id, &pdu, &[10, 10]);
            (id, lab, 0x0800 + j as u16, pdu, pk)
        })
        .collect();
    let intruder_id = base + n as u8; // its slot is free
    let intruder = ref_train(Lab::Three(ALPHA3[2]), 0x86DD, intruder_id, &pdu_bytes(25, 9), &[12]);
    let ctx = format!("slots {} storages {} ids {}..{} intruder id {} at {} rev {}", k, n, base, base as usize + n - 1, intruder_id, intruder_at, rev);
    let intrude = |d: &mut SimpleDec, st: &mut Stats, when: &str| -> Result<(), String> {
        st.class("first-fragment-with-empty-pool-and-free-slot");
        for (q, pkt) in intruder.iter().enumerate() {
            match call_decap(d, pkt) {
                Ok(Err(_)) => {}
                o => return st.violation("starved-first-accepted", format!("{}: packet {} of a train arriving {} while every storage holds an open PDU -> {} (no storage is free: it must be refused)", ctx, q, when, show_dec(&o))),
            }
        }
        Ok(())
    };
    for t in &trains {
        match call_decap(&mut d, &t.4[0]) {
            Ok(Ok((DecapStatus::FragmentedPkt(_), _))) => {}
            o => return st.violation("fragment-rejected", format!("{}: first fragment of id {} -> {}", ctx, t.0, show_dec(&o))),
        }
    }
    intrude(&mut d, st, "after the first fragments")?;
    for (j, t) in trains.iter().enumerate() {
        if intruder_at >= 1 && j == n / 2 {
            intrude(&mut d, st, "between the intermediate fragments")?;
        }
        match call_decap(&mut d, &t.4[1]) {
            Ok(Ok((DecapStatus::FragmentedPkt(_), _))) => {}
            o => return st.violation("fragment-rejected", format!("{}: intermediate fragment of id {} -> {}", ctx, t.0, show_dec(&o))),
        }
    }
    if intruder_at == 2 {
        intrude(&mut d, st, "before the end fragments")?;
    }
    st.class_if(n >= 2, "interleaved");
    let order: Vec<usize> = if rev { (0..n).rev().collect() } else { (0..n).collect() };
    for j in order {
        let t = &trains[j];
        match call_decap(&mut d, &t.4[2]) {
            Ok(Ok((DecapStatus::CompletedPkt(b, md), _))) if md.pdu_len() == t.3.len() && b[..t.3.len()] == t.3[..] && Lab::of(&md.label()) == t.1 && md.protocol_type() == t.2 => {
                // the storage is not given back: the pool stays empty for the remaining trains
                drop(b);
            }
            o => return st.violation("not-delivered", format!("{}: end fragment of id {} must deliver its own PDU, got {}", ctx, t.0, show_dec(&o))),
        }
    }
    st.nontrivial(i);
    st.sample(|| json!({"starved": ctx}));
    Ok(())
}

pub fn property() -> Property {
    Property {
        id: "C07",
        rule: "enumerated: every order-preserving merge of 2 PDUs x 2..4 fragments and 3 PDUs x 2..3 fragments, alone and with one stray (intermediate/end of an id aliasing each open slot or of an unknown id, complete packet with/without label, a complete new train restarting each id, a complete new train on an aliasing id claiming each slot) inserted at every position, for memories of 2 (quick) / 2,3,4 (thorough) slots; generated: 2..4 PDUs x 2..5 fragments of up to 6000 bytes, random ids with distinct residues modulo 2..8 slots, random merge, 0..6 strays. oracle: reference slot-ownership model; each tracked PDU is delivered exactly once at its own end fragment, byte-identical with its own label/protocol type; every packet of a live train returns FragmentedPkt with the train's metadata; strays never deliver; a train is lost only when a first fragment claims its slot / restarts its id while it is open. non-trivial = trains really interleaved and a stray aliasing an open slot or a claim/restart of an open train",
        assumptions: &["traffic is built by RefCodec (independent of the encapsulator)", "slot = frag id modulo slots, as documented by the bundled memory"],
        parts: vec![
            Box::new(EnumPart {
                name: "all-merges-x-one-stray",
                rule: "see property rule",
                size: |t| enum_table(t).len() as u64,
                exhaustive: |_| true,
                check: check_enum,
                describe: desc_enum,
                required_classes: &["interleaved", "stray-aliases-open-slot", "first-fragment-preempts-open-train", "first-fragment-with-re-use-label", "train-with-extensions", "walked-as-one-frame"],
            }),
            Box::new(EnumPart {
                name: "every-pair-of-frag-ids",
                rule: "two alternating 3-fragment trains (one with extensions) on every ordered pair of fragment ids that do not share a slot, in memories of 128, 5 and 256 slots, with a stray end fragment on an id aliasing the first train after the third packet, every other case walked as one frame; exhaustive over the pairs; same slot-ownership oracle",
                size: |_| 3 * 65536,
                exhaustive: |_| true,
                check: check_pair,
                describe: |_t, i| pair_case(i).map(|s| serde_json::to_value(s).unwrap_or(Value::Null)).unwrap_or(Value::Null),
                required_classes: &["interleaved", "stray-aliases-open-slot", "train-with-extensions", "walked-as-one-frame", "first-fragment-without-payload"],
            }),
            Box::new(EnumPart {
                name: "starved-pool",
                rule: "n = 1..K-1 open three-fragment trains on distinct slots of a K-slot memory (K = 2..8) provisioned with exactly n storages, so that no storage is free; a further train on an id whose slot is free arrives after the first fragments / between the intermediates / before the ends: every one of its packets must be refused, and each open train must still deliver its own PDU, label and protocol type at its end fragment (both completion orders); exhaustive over (K, n, id base, intruder position, order)",
                size: |_| 7 * 8 * 4 * 3 * 2,
                exhaustive: |_| true,
                check: check_starved,
                describe: |_t, i| json!({"case": format!("{:?}", starved_decode(i))}),
                required_classes: &["first-fragment-with-empty-pool-and-free-slot", "interleaved"],
            }),
            Box::new(GenPart {
                name: "random-interleavings",
                rule: "see property rule",
                cases: (600_000, 15_000_000),
                fuzz_decode: Some(crate::fuzzdec::c07_case),
                strategy: gen_strategy,
                check: check_scenario,
                required_classes: &["interleaved", "stray-aliases-open-slot", "first-fragment-preempts-open-train", "first-fragment-without-payload"],
            }),
        ],
    }
}
