//! Shared sender-side driver and packet oracle (used by C06, C11, C02-style checks).
//!
//! Every call into the encapsulator is executed twice on clones, into buffers pre-filled
//! with two complementary patterns: a byte is *written* iff both runs agree on it and
//! *untouched* iff it still holds its prefill.

use crate::common::*;
use crate::engine::{hash_of, Stats};
use crate::oracle::refcodec::{self, Parsed, RefPacket};
use dvb_gse_rust::gse_encap::{ContextFrag, EncapError, EncapStatus};
use proptest::prelude::*;
use serde::{Deserialize, Serialize};
use serde_json::json;

pub const FILL_A: u8 = 0xA5;
pub const FILL_B: u8 = 0x5A;

#[derive(Clone, Debug, PartialEq, Eq, Hash, Serialize, Deserialize)]
pub struct SendOne {
    pub pdu: Pdu,
    pub lab: Lab,
    pub ptype: u16,
    pub frag_id: u8,
    pub exts: Vec<ExtSpec>,
    pub first: BufSpec,
    pub conts: Vec<BufSpec>,
    /// tail buffers (after `conts` is exhausted) are `tail_base + (k * tail_step) % tail_span`
    pub tail_base: u16,
    pub tail_span: u16,
    /// Some((crc, pos_sel)): no first call; continuation starts from
    /// ContextFrag::new(frag_id, crc, pos) with pos = pos_sel scaled into 0..=pdu_len
    pub handmade: Option<(u32, u16)>,
}

#[derive(Clone, Debug, PartialEq, Eq, Hash, Serialize, Deserialize)]
pub struct SendCase {
    pub reuse: ReuseCfg,
    pub sends: Vec<SendOne>,
}

#[derive(Clone, Copy)]
pub struct Knobs {
    pub with_exts: bool,
    pub max_sends: usize,
    pub max_conts: usize,
    /// minimum size of tail buffers
    pub tail_min: u16,
    /// percentage of sends that start from a hand-made context
    pub handmade_pct: u32,
    /// bias continuation buffers to tiny / threshold sizes (C11)
    pub tiny_bias: bool,
}

pub fn bufspec_c11() -> impl Strategy<Value = BufSpec> {
    prop_oneof![
        5 => (0u32..=12).prop_map(BufSpec::Abs),
        4 => (-3i32..=8).prop_map(BufSpec::RemPlus),
        2 => (-8i32..=8).prop_map(BufSpec::FitPlus),
        2 => (13u32..=300).prop_map(BufSpec::Abs),
        1 => (300u32..=4097).prop_map(BufSpec::Abs),
        1 => (4098u32..=70000).prop_map(BufSpec::Abs),
    ]
}

pub fn ext_chain(with_final: bool) -> BoxedStrategy<Vec<ExtSpec>> {
    let body = prop::collection::vec(
        prop_oneof![3 => ext_optional(), 1 => ext_mand_nonfinal()],
        if with_final { 0..3usize } else { 1..4usize },
    );
    if with_final {
        (body, ext_mand_final())
            .prop_map(|(mut v, f)| {
                v.push(f);
                v
            })
            .boxed()
    } else {
        body.boxed()
    }
}

pub fn send_one(k: Knobs) -> BoxedStrategy<SendOne> {
    // (ptype, exts): user ptype with 0..3 non-final exts, or ptype < 0x100 == id of a final mandatory ext
    let pe: BoxedStrategy<(u16, Vec<ExtSpec>)> = if k.with_exts {
        prop_oneof![
            4 => ptype_user().prop_map(|p| (p, vec![])),
            3 => (ptype_user(), ext_chain(false)),
            2 => ext_chain(true).prop_map(|v| (v.last().unwrap().id, v)),
        ]
        .boxed()
    } else {
        ptype_user().prop_map(|p| (p, vec![])).boxed()
    };
    (
        (pdu_len_any16(), pdu_seed()),
        lab_any_valid(),
        pe,
        any::<u8>(),
        bufspec_any(),
        if k.tiny_bias { prop::collection::vec(bufspec_c11(), 0..=k.max_conts).boxed() } else { prop::collection::vec(bufspec_any(), 0..=k.max_conts).boxed() },
        (k.tail_min..=4200u16, 1u16..=4200),
        (0u32..100, any::<u32>(), prop_oneof![3 => any::<u16>(), 1 => Just(u16::MAX), 1 => Just(0u16)]),
    )
        .prop_map(move |((len, seed), lab, (ptype, exts), frag_id, first, conts, (tail_base, tail_span), (hm, crc, pos))| SendOne {
            handmade: if hm < k.handmade_pct { Some((crc, pos)) } else { None },
            pdu: Pdu { len, seed },
            lab,
            ptype,
            frag_id,
            exts,
            first,
            conts,
            tail_base,
            tail_span,
        })
        .boxed()
}

pub fn send_case(k: Knobs) -> BoxedStrategy<SendCase> {
    (reuse_cfg(), prop::collection::vec(send_one(k), 1..=k.max_sends))
        .prop_map(|(reuse, sends)| SendCase { reuse, sends })
        .boxed()
}

/// One executed call.
pub struct Call {
    pub is_first: bool,
    pub buf_len: usize,
    pub ctx_before: Option<ContextFrag>,
    pub result: Result<EncapStatus, EncapError>,
    /// bytes of run A (whole buffer)
    pub buf_a: Vec<u8>,
    pub buf_b: Vec<u8>,
}

/// what the oracle should insist on
#[derive(Clone, Copy)]
pub struct Flags {
    pub c06: bool,
    pub c11: bool,
}

pub struct TrainLog {
    /// payload slices carried, in order
    pub carried: usize,
    pub finished: bool,
    pub packets: Vec<Vec<u8>>,
}

fn ext_area(exts: &[ExtSpec], final_mand: bool) -> usize {
    if exts.is_empty() {
        return 0;
    }
    let mut n = 0;
    for (i, e) in exts.iter().enumerate() {
        if i > 0 {
            n += 2;
        }
        n += e.data.len();
    }
    if !final_mand {
        n += 2;
    }
    n
}

/// Execute one call twice (patterns A/B) on clones of `enc`; `enc` itself advances with run A.
fn twin_first(enc: &mut Enc, pdu: &[u8], s: &SendOne, buf_len: usize) -> Result<Call, String> {
    let mut twin = enc.clone();
    let mut a = vec![FILL_A; buf_len];
    let mut b = vec![FILL_B; buf_len];
    let (ra, rb) = if s.exts.is_empty() {
        (
            call_encap(enc, pdu, s.frag_id, s.ptype, s.lab, &mut a),
            call_encap(&mut twin, pdu, s.frag_id, s.ptype, s.lab, &mut b),
        )
    } else {
        let mut v1 = vec![];
        let mut v2 = vec![];
        for e in &s.exts {
            v1.push(e.build()?);
            v2.push(e.build()?);
        }
        (
            call_encap_ext(enc, pdu, s.frag_id, s.ptype, s.lab, &mut a, v1),
            call_encap_ext(&mut twin, pdu, s.frag_id, s.ptype, s.lab, &mut b, v2),
        )
    };
    let ra = ra.map_err(|p| format!("PANIC {}", p.0))?;
    let rb = rb.map_err(|p| format!("PANIC {}", p.0))?;
    if ra != rb {
        return Err(format!("NONDET results differ between identical calls: {:?} vs {:?}", ra, rb));
    }
    if *enc != twin {
        return Err("NONDET encapsulator state differs between identical calls".into());
    }
    Ok(Call { is_first: true, buf_len, ctx_before: None, result: ra, buf_a: a, buf_b: b })
}

fn twin_cont(enc: &Enc, pdu: &[u8], ctx: &ContextFrag, buf_len: usize) -> Result<Call, String> {
    let mut a = vec![FILL_A; buf_len];
    let mut b = vec![FILL_B; buf_len];
    let ra = call_encap_frag(enc, pdu, ctx, &mut a).map_err(|p| format!("PANIC {}", p.0))?;
    let rb = call_encap_frag(enc, pdu, ctx, &mut b).map_err(|p| format!("PANIC {}", p.0))?;
    if ra != rb {
        return Err(format!("NONDET results differ between identical calls: {:?} vs {:?}", ra, rb));
    }
    Ok(Call { is_first: false, buf_len, ctx_before: Some(*ctx), result: ra, buf_a: a, buf_b: b })
}

/// C06 oracle on one successful call.  Returns the parsed packet.
pub fn check_emitted(
    call: &Call,
    pdu: &[u8],
    s: &SendOne,
    st: &mut Stats,
    fl: Flags,
) -> Result<Option<RefPacket>, String> {
    let (n, ctx_after, completed) = match &call.result {
        Err(_) => return Ok(None),
        Ok(EncapStatus::CompletedPkt(n)) => (*n as usize, None, true),
        Ok(EncapStatus::FragmentedPkt(n, c)) => (*n as usize, Some(*c), false),
    };
    let what = if call.is_first { if s.exts.is_empty() { "encap" } else { "encap_ext" } } else { "encap_frag" };
    macro_rules! bad {
        ($sig:expr, $($arg:tt)*) => {{
            st.violation($sig, format!("{} (buffer {} bytes, returned {:?}): {}", what, call.buf_len, call.result, format!($($arg)*)))?;
            return Ok(None);
        }};
    }
    if n > call.buf_len {
        bad!("len>buffer", "returned length {} exceeds the buffer", n);
    }
    if n < 2 {
        bad!("len<2", "returned length {} cannot hold a header", n);
    }
    if fl.c06 {
        for i in 0..call.buf_len {
            let written = call.buf_a[i] == call.buf_b[i];
            if i < n && !written {
                bad!("stale-byte", "byte {} inside the returned length {} was not written (stale)", i, n);
            }
            if i >= n && (call.buf_a[i] != FILL_A || call.buf_b[i] != FILL_B) {
                bad!("write-beyond-len", "byte {} at/after the returned length {} was modified", i, n);
            }
        }
    }
    let bytes = &call.buf_a[..n];
    let gse_len = (u16::from_be_bytes([bytes[0], bytes[1]]) & 0x0FFF) as usize;
    if gse_len + 2 != n {
        bad!("gse-len", "GSE length field {} != returned length {} - 2 (header {:02x}{:02x})", gse_len, n, bytes[0], bytes[1]);
    }
    let p = match refcodec::parse(bytes, &mand_lookup) {
        Ok(Parsed::Packet(p, c)) if c == n => p,
        Ok(Parsed::Padding) => bad!("reads-as-padding", "emitted packet reads as padding: {}", hex(bytes)),
        o => bad!("unparsable", "emitted bytes do not parse as one packet: {:?} bytes {}", o.map(|_| ()), hex(bytes)),
    };
    // S/E bits vs status and call
    let want_kind = match (call.is_first, completed) {
        (true, true) => "complete",
        (true, false) => "first",
        (false, false) => "intermediate",
        (false, true) => "end",
    };
    if p.kind() != want_kind {
        bad!("kind", "status says {} but S/E bits say {}", want_kind, p.kind());
    }
    if call.is_first {
        // label type and label bytes
        let lw = Lab::from_wire(p.lt, &p.label);
        let ok = match s.lab {
            Lab::Broadcast => lw == Lab::Broadcast,
            Lab::ReUse => lw == Lab::ReUse,
            l => lw == l || lw == Lab::ReUse,
        };
        if !ok {
            bad!("label", "label passed {:?}, written {:?}", s.lab, lw);
        }
        st.class_if(lw == Lab::ReUse && s.lab.is_addr(), "substituted");
        if !completed {
            if p.frag_id != Some(s.frag_id) {
                bad!("frag-id", "frag id written {:?}, passed {}", p.frag_id, s.frag_id);
            }
            if s.exts.is_empty() {
                let want_tl = 2 + p.label.len() + pdu.len();
                if p.total_len.map(|t| t as usize) != Some(want_tl) {
                    bad!("total-len", "total length {:?} != 2 + {} + {}", p.total_len, p.label.len(), pdu.len());
                }
            }
        }
        if p.ptype != Some(s.ptype) {
            bad!("ptype", "protocol type written {:?}, passed {:#06x}", p.ptype, s.ptype);
        }
        let want_exts: Vec<(u16, Vec<u8>)> = s.exts.iter().map(|e| (e.id, e.data.clone())).collect();
        if p.exts != want_exts {
            bad!("exts", "extensions written {:?}, passed {:?}", p.exts, want_exts);
        }
        let carried = match ctx_after {
            None => pdu.len(),
            Some(c) => c.len_pdu_frag() as usize,
        };
        if completed && p.payload.len() != pdu.len() {
            bad!("payload", "complete packet carries {} bytes of a {}-byte PDU", p.payload.len(), pdu.len());
        }
        if fl.c11 && !completed && carried != p.payload.len() {
            bad!("first-ctx-count", "context says {} payload bytes, packet carries {}", carried, p.payload.len());
        }
        if p.payload.len() > pdu.len() || p.payload[..] != pdu[..p.payload.len()] {
            bad!("payload", "payload is not the PDU prefix");
        }
        if let Some(c) = ctx_after {
            if c.frag_id() != s.frag_id {
                bad!("ctx-frag-id", "context frag id {} != {}", c.frag_id(), s.frag_id);
            }
        }
    } else {
        let cb = call.ctx_before.unwrap();
        if p.lt != 3 {
            bad!("lt-s0", "S=0 packet with label-type bits {:02b}", p.lt);
        }
        if p.frag_id != Some(cb.frag_id()) {
            bad!("frag-id", "frag id written {:?}, context {}", p.frag_id, cb.frag_id());
        }
        let pos = cb.len_pdu_frag() as usize;
        if pos + p.payload.len() > pdu.len() || p.payload[..] != pdu[pos..pos + p.payload.len()] {
            bad!("payload", "payload is not pdu[{}..{}]", pos, pos + p.payload.len());
        }
        if completed {
            if pos + p.payload.len() != pdu.len() {
                bad!("end-incomplete", "end packet carries {} bytes, {} remained", p.payload.len(), pdu.len() - pos);
            }
            if p.crc != Some(cb.crc()) {
                bad!("end-crc", "trailer {:?} != context crc {:#010x}", p.crc, cb.crc());
            }
        } else {
            let ca = ctx_after.unwrap();
            if fl.c11 {
                if p.payload.is_empty() {
                    bad!("empty-intermediate", "intermediate packet without payload (remaining {}, buffer {})", pdu.len() - pos, call.buf_len);
                }
                if ca.len_pdu_frag() as usize != pos + p.payload.len() {
                    bad!("ctx-advance", "context advanced {} -> {}, packet carries {}", pos, ca.len_pdu_frag(), p.payload.len());
                }
                if ca.frag_id() != cb.frag_id() || ca.crc() != cb.crc() {
                    bad!("ctx-fields", "frag id / crc changed across a continuation: {:?} -> {:?}", cb, ca);
                }
            }
        }
    }
    Ok(Some(p))
}

/// Drive a whole case.  Returns per-send logs.  Violations are reported through `st`.
pub fn run_send_case(c: &SendCase, st: &mut Stats, fl: Flags) -> Result<Vec<TrainLog>, String> {
    let mut enc = new_enc();
    apply_reuse(&mut enc, c.reuse);
    let mut logs = vec![];
    let mut nontrivial = false;
    for s in &c.sends {
        let pdu = s.pdu.bytes();
        let final_mand = !s.exts.is_empty() && s.ptype < 0x100;
        let ea = ext_area(&s.exts, final_mand);
        let first_len = s.first.first(pdu.len(), s.lab.len(), ea);
        let mut log = TrainLog { carried: 0, finished: false, packets: vec![] };
        let mut handmade_ctx = None;
        if let Some((crc, pos_sel)) = s.handmade {
            let pos = if pos_sel == u16::MAX { pdu.len().min(65535) } else { idx16(pos_sel, pdu.len().min(65535) + 1) };
            handmade_ctx = Some(ContextFrag::new(s.frag_id, crc, pos as u16));
            log.carried = pos;
            st.class("handmade-context");
            st.class_if(pos == pdu.len(), "handmade-context-at-end");
            nontrivial = true;
        }
        let call = if handmade_ctx.is_some() {
            // placeholder "call": no first call is made
            Call { is_first: true, buf_len: 0, ctx_before: None, result: Err(EncapError::ErrorSizeBuffer), buf_a: vec![], buf_b: vec![] }
        } else { match twin_first(&mut enc, &pdu, s, first_len) {
            Ok(c) => c,
            Err(m) if m.starts_with("PANIC") => {
                st.class("panicked-call(C09)");
                logs.push(log);
                continue;
            }
            Err(m) => {
                st.violation("nondeterministic", m)?;
                logs.push(log);
                continue;
            }
        } };
        st.class_if(first_len > 4097 && handmade_ctx.is_none(), "first-buffer>4097");
        let parsed = if handmade_ctx.is_some() { None } else { check_emitted(&call, &pdu, s, st, fl)? };
        let mut ctx = if let Some(c) = handmade_ctx { c } else { match (&call.result, &parsed) {
            (Ok(EncapStatus::CompletedPkt(n)), Some(p)) => {
                st.class("complete");
                if p.payload.len() + 2 + p.label.len() >= 4000 || first_len > 4097 || !s.exts.is_empty() {
                    nontrivial = true;
                }
                log.carried = pdu.len();
                log.finished = true;
                log.packets.push(call.buf_a[..*n as usize].to_vec());
                logs.push(log);
                continue;
            }
            (Ok(EncapStatus::FragmentedPkt(n, ctx)), Some(p)) => {
                st.class("first-fragment");
                st.class_if(!s.exts.is_empty(), "first-fragment-with-exts");
                if !s.exts.is_empty() || first_len > 4097 || *n >= 4000 {
                    nontrivial = true;
                }
                log.carried = p.payload.len();
                log.packets.push(call.buf_a[..*n as usize].to_vec());
                *ctx
            }
            (Err(_), _) => {
                st.class("first-call-err");
                logs.push(log);
                continue;
            }
            _ => {
                logs.push(log);
                continue;
            }
        } };
        // continuation calls
        let remaining_after_first = pdu.len() - (ctx.len_pdu_frag() as usize).min(pdu.len());
        let mut calls_ge7 = 0usize;
        let mut k = 0usize;
        loop {
            let remaining = pdu.len().saturating_sub(ctx.len_pdu_frag() as usize);
            let buf_len = if k < s.conts.len() {
                s.conts[k].cont(remaining)
            } else {
                let j = (k - s.conts.len()) as u32;
                (s.tail_base as u32 + (j.wrapping_mul(2654435761) >> 7) % (s.tail_span as u32)) as usize
            };
            k += 1;
            if k > 400 {
                st.class("train-abandoned-after-400-calls");
                break;
            }
            let call = match twin_cont(&enc, &pdu, &ctx, buf_len) {
                Ok(c) => c,
                Err(m) if m.starts_with("PANIC") => {
                    st.class("panicked-call(C09)");
                    break;
                }
                Err(m) => {
                    st.violation("nondeterministic", m)?;
                    break;
                }
            };
            st.class_if(buf_len > 4097, "cont-buffer>4097");
            st.class_if(buf_len < 7, "cont-buffer<7");
            if buf_len >= 7 {
                calls_ge7 += 1;
            }
            let near = (buf_len as i64 - (7 + remaining) as i64).abs() <= 8;
            if near || remaining == 0 || buf_len < 7 {
                nontrivial = true;
            }
            st.class_if(remaining == 0, "cont-remaining=0");
            st.class_if(buf_len >= 3 + remaining && buf_len < 7 + remaining && remaining > 0, "cont-room-for-payload-not-crc");
            let parsed = check_emitted(&call, &pdu, s, st, fl)?;
            match (&call.result, parsed) {
                (Ok(EncapStatus::CompletedPkt(n)), Some(p)) => {
                    st.class("end");
                    if *n >= 4000 || buf_len > 4097 {
                        nontrivial = true;
                    }
                    log.carried += p.payload.len();
                    log.finished = true;
                    log.packets.push(call.buf_a[..*n as usize].to_vec());
                    break;
                }
                (Ok(EncapStatus::FragmentedPkt(n, c2)), Some(p)) => {
                    st.class("intermediate");
                    if *n >= 4000 || buf_len > 4097 {
                        nontrivial = true;
                    }
                    log.carried += p.payload.len();
                    log.packets.push(call.buf_a[..*n as usize].to_vec());
                    if c2.len_pdu_frag() <= ctx.len_pdu_frag() && !fl.c11 {
                        // no progress: stop driving (C11 reports it)
                        break;
                    }
                    ctx = *c2;
                }
                (Err(e), _) => {
                    st.class("cont-err");
                    if fl.c11 {
                        if buf_len >= 7 {
                            st.violation(
                                "cont-err-with-buffer>=7",
                                format!("encap_frag({} remaining, buffer {}) -> Err({:?}) although the buffer is >= 7 bytes", remaining, buf_len, e),
                            )?;
                        }
                    }
                }
                _ => break,
            }
            if fl.c11 && calls_ge7 > remaining_after_first + 1 {
                st.violation(
                    "no-completion-within-bound",
                    format!("{} calls with buffers >= 7 bytes after the first fragment, {} bytes remained: not finished", calls_ge7, remaining_after_first),
                )?;
                break;
            }
        }
        if fl.c11 && log.finished && log.carried != pdu.len() {
            st.violation("partition", format!("payloads of the train sum to {} bytes, PDU has {}", log.carried, pdu.len()))?;
        }
        logs.push(log);
    }
    if nontrivial {
        st.nontrivial(hash_of(c));
    }
    st.sample(|| {
        json!({
            "reuse": format!("{:?}", c.reuse),
            "sends": c.sends.iter().zip(logs.iter()).map(|(s, l)| json!({
                "pdu_len": s.pdu.len, "label": format!("{:?}", s.lab), "ptype": s.ptype, "frag_id": s.frag_id,
                "exts": s.exts.iter().map(|e| format!("{:#06x}+{}", e.id, e.data.len())).collect::<Vec<_>>(),
                "first_buf": format!("{:?}", s.first), "conts": s.conts.len(),
                "packets": l.packets.iter().map(|p| p.len()).collect::<Vec<_>>(), "finished": l.finished,
            })).collect::<Vec<_>>()
        })
    });
    Ok(logs)
}
