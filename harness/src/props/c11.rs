//! C11 — fragmentation always progresses and partitions the PDU exactly.

use super::sender::*;
use crate::engine::{GenPart, Property, Stats, Tier};
use proptest::prelude::*;

fn strategy(t: Tier) -> BoxedStrategy<SendCase> {
    send_case(Knobs { with_exts: true, max_sends: 2, max_conts: t.pick(14, 24), tail_min: 7, handmade_pct: 40, tiny_bias: true })
}

fn check(c: &SendCase, st: &mut Stats) -> Result<(), String> {
    run_send_case(c, st, Flags { c06: false, c11: true }).map(|_| ())
}

pub fn property() -> Property {
    Property {
        id: "C11",
        rule: "trains started by encap or from ContextFrag::new at any position 0..=len (incl. exactly at the end), continuation buffers 0..=70000 weighted to 0..=12 and to remaining+3-3..=+8, then tail buffers >= 7; oracle: first context == payload carried, each Ok continuation is the CRC-bearing end with all remaining bytes or an intermediate with >= 1 byte and a context advanced by exactly that, payloads are consecutive PDU slices summing to the PDU, buffers >= 7 never fail and finish within remaining+1 calls, never an empty fragment. non-trivial = a call within 8 bytes of the end threshold, or remaining == 0, or buffer < 7, or a hand-made context",
        assumptions: &["RefCodec locates the payload in emitted packets"],
        parts: vec![Box::new(GenPart {
            name: "trains",
            rule: "see property rule",
            cases: (720_000, 20_000_000),
            fuzz_decode: Some(crate::fuzzdec::c11_case),
            strategy,
            check,
            required_classes: &[
                "first-fragment", "intermediate", "end", "cont-buffer<7", "cont-remaining=0", "handmade-context",
                "handmade-context-at-end", "cont-room-for-payload-not-crc", "cont-err",
            ],
        })],
    }
}
