//! C11 — fragmentation always progresses and partitions the PDU exactly.

use super::sender::*;
use crate::common::*;
use crate::engine::{EnumPart, GenPart, Property, Stats, Tier};
use serde_json::Value;
use proptest::prelude::*;

fn strategy(t: Tier) -> BoxedStrategy<SendCase> {
    send_case(Knobs { with_exts: true, max_sends: 2, max_conts: t.pick(14, 24), tail_min: 7, handmade_pct: 40, tiny_bias: true })
}

fn check(c: &SendCase, st: &mut Stats) -> Result<(), String> {
    run_send_case(c, st, Flags { c06: false, c11: true }).map(|_| ())
}

// ---- enumerated grid: one continuation call for every (remaining, buffer), then the train is finished ------

const GRID_R: u64 = 4201; // remaining 0..=4200
const GRID_B: u64 = 4301; // buffer 0..=4300

fn grid_case(i: u64) -> SendCase {
    let (r, b) = (i / GRID_B, i % GRID_B);
    SendCase {
        reuse: ReuseCfg::Default,
        sends: vec![SendOne {
            pdu: Pdu { len: r as u32, seed: 3 + r as u32 },
            lab: Lab::Broadcast,
            ptype: 0x0800,
            frag_id: (r % 256) as u8,
            exts: vec![],
            first: BufSpec::Abs(0),
            conts: vec![BufSpec::Abs(b as u32)],
            tail_base: 4097,
            tail_span: 1,
            // context "nothing sent yet" made by hand: the whole PDU remains
            handmade: Some((0xC0DE_0000 | r as u32, 0)),
        }],
    }
}

fn check_grid(i: u64, st: &mut Stats) -> Result<(), String> {
    run_send_case(&grid_case(i), st, Flags { c06: false, c11: true }).map(|_| ())
}

pub fn property() -> Property {
    Property {
        id: "C11",
        rule: "trains started by encap or from ContextFrag::new at any position 0..=len (incl. exactly at the end), continuation buffers 0..=70000 weighted to 0..=12 and to remaining+3-3..=+8, then tail buffers >= 7; oracle: first context == payload carried, each Ok continuation is the CRC-bearing end with all remaining bytes or an intermediate with >= 1 byte and a context advanced by exactly that, payloads are consecutive PDU slices summing to the PDU, buffers >= 7 never fail and finish within remaining+1 calls, never an empty fragment. non-trivial = a call within 8 bytes of the end threshold, or remaining == 0, or buffer < 7, or a hand-made context",
        assumptions: &["RefCodec locates the payload in emitted packets"],
        parts: vec![
        Box::new(EnumPart {
            name: "continuation-grid",
            rule: "a hand-made context with r bytes remaining (r 0..=4200) given one buffer b, then 4097-byte buffers until the train ends: every b 0..=4300 (18 M trains, exhaustive in both tiers); same oracle as the trains",
            size: |_| GRID_R * GRID_B,
            exhaustive: |_| true,
            check: check_grid,
            describe: |_t, i| serde_json::to_value(grid_case(i)).unwrap_or(Value::Null),
            required_classes: &["intermediate", "end", "cont-buffer<7", "cont-remaining=0", "handmade-context-at-end", "cont-room-for-payload-not-crc", "cont-err"],
        }),
        Box::new(GenPart {
            name: "trains",
            rule: "see property rule",
            cases: (720_000, 20_000_000),
            fuzz_decode: Some(crate::fuzzdec::c11_case),
            strategy,
            check,
            required_classes: &[
                "first-fragment", "intermediate", "end", "cont-buffer<7", "cont-remaining=0", "handmade-context",
                "handmade-context-at-end", "cont-room-for-payload-not-crc", "cont-err",
            ],
        })],
    }
}
