//! C12 — the default CRC is CRC-32/MPEG-2 over total length | protocol type | label | PDU,
//! and that is the value the encapsulator writes and the decapsulator recomputes.

use crate::common::*;
use crate::engine::{bx, guard, hash_of, EnumPart, GenPart, Property, Stats, Tier};
use crate::oracle::refcodec::{self, Parsed};
use crate::oracle::refcrc;
use dvb_gse_rust::crc::{CrcCalculator, DefaultCrc};
use dvb_gse_rust::gse_decap::{DecapStatus, Decapsulator, GseDecapMemory, SimpleGseMemory};
use dvb_gse_rust::gse_encap::{EncapMetadata, EncapStatus, Encapsulator};
use proptest::prelude::*;
use serde::{Deserialize, Serialize};
use serde_json::{json, Value};
use std::cell::RefCell;
use std::rc::Rc;

// ---- part 1: every table index at every byte position ---------------------------------

const SWEEP_LENS: u64 = 17; // message lengths 4..=20
const SWEEP_POS: u64 = 20;

fn sweep_decode(i: u64) -> Option<(u8, usize, usize, u8)> {
    let val = (i & 0xFF) as u8;
    let pos = ((i >> 8) % SWEEP_POS) as usize;
    let n = 4 + (((i >> 8) / SWEEP_POS) % SWEEP_LENS) as usize;
    let bg = (((i >> 8) / SWEEP_POS) / SWEEP_LENS) as u8;
    if pos >= n {
        None
    } else {
        Some((bg, n, pos, val))
    }
}

fn sweep_msg(bg: u8, n: usize, pos: usize, val: u8) -> (Vec<u8>, usize) {
    let mut m: Vec<u8> = (0..n)
        .map(|k| if bg == 0 { 0u8 } else { (0x5Au8).wrapping_mul(k as u8 + 1) ^ 0xC3 })
        .collect();
    m[pos] = val;
    let want_l = [0usize, 3, 6][(n + pos) % 3];
    let l = if n - 4 >= want_l { want_l } else { 0 };
    (m, l)
}

fn check_sweep(i: u64, st: &mut Stats) -> Result<(), String> {
    let Some((bg, n, pos, val)) = sweep_decode(i) else {
        st.class("skipped-index");
        return Ok(());
    };
    let (m, l) = sweep_msg(bg, n, pos, val);
    let tl = u16::from_be_bytes([m[0], m[1]]);
    let pt = u16::from_be_bytes([m[2], m[3]]);
    let label = &m[4..4 + l];
    let pdu = &m[4 + l..];
    let got = match guard(|| DefaultCrc {}.calculate_crc32(pdu, pt, tl, label)) {
        Ok(v) => v,
        Err(p) => return st.violation("crc-panic", format!("calculate_crc32 panicked: {}", p.0)),
    };
    let want = refcrc::crc32_mpeg2(&m);
    st.class("sweep");
    let distinct = m.iter().collect::<std::collections::BTreeSet<_>>().len();
    if n >= 5 && distinct >= 2 {
        st.nontrivial_distinct(1);
    }
    if got != want {
        return st.violation(
            "default-crc-mismatch",
            format!("DefaultCrc({:02x?}) = {:#010x}, CRC-32/MPEG-2 = {:#010x} (byte {} = {:#04x})", m, got, want, pos, val),
        );
    }
    Ok(())
}

fn desc_sweep(_t: Tier, i: u64) -> Value {
    match sweep_decode(i) {
        None => json!({"skipped": true}),
        Some((bg, n, pos, val)) => json!({"background": bg, "message_len": n, "position": pos, "value": val}),
    }
}

// ---- part 2: random inputs ---------------------------------------------------------------

#[derive(Clone, Debug, Serialize, Deserialize, Hash)]
pub struct RandCase {
    pdu: Pdu,
    total_len: u16,
    ptype: u16,
    label: Vec<u8>,
}

fn rand_strategy(_t: Tier) -> BoxedStrategy<RandCase> {
    let label = prop_oneof![
        Just(vec![]),
        any::<[u8; 3]>().prop_map(|b| b.to_vec()),
        any::<[u8; 6]>().prop_map(|b| b.to_vec()),
    ];
    bx((pdu_len_any16(), pdu_seed(), any::<u16>(), any::<u16>(), label).prop_map(|(len, seed, tl, pt, label)| RandCase {
        pdu: Pdu { len, seed },
        total_len: tl,
        ptype: pt,
        label,
    }))
}

fn check_rand(c: &RandCase, st: &mut Stats) -> Result<(), String> {
    let pdu = c.pdu.bytes();
    let got = match guard(|| DefaultCrc {}.calculate_crc32(&pdu, c.ptype, c.total_len, &c.label)) {
        Ok(v) => v,
        Err(p) => return st.violation("crc-panic", format!("calculate_crc32 panicked: {}", p.0)),
    };
    let want = refcrc::gse_crc(c.total_len, c.ptype, &c.label, &pdu);
    st.class(match c.label.len() {
        0 => "label0",
        3 => "label3",
        _ => "label6",
    });
    st.class_if(c.pdu.len > 4095, "pdu>4095");
    st.class_if(c.pdu.len == 0, "pdu-empty");
    if c.pdu.len >= 1 && c.pdu.seed > 1 {
        st.nontrivial(hash_of(c));
    }
    st.sample(|| json!({"pdu_len": c.pdu.len, "pdu_seed": c.pdu.seed, "total_len": c.total_len, "ptype": c.ptype, "label": c.label}));
    if got != want {
        return st.violation("default-crc-mismatch", format!("DefaultCrc = {:#010x}, reference = {:#010x} for {:?}", got, want, c));
    }
    // small messages additionally against the table-free bitwise routine
    if pdu.len() <= 64 {
        let bw = refcrc::gse_crc_bitwise(c.total_len, c.ptype, &c.label, &pdu);
        if bw != got {
            return st.violation("default-crc-mismatch", format!("DefaultCrc = {:#010x}, bitwise reference = {:#010x}", got, bw));
        }
    }
    Ok(())
}

// ---- part 2b: one argument closed at a time ---------------------------------------------------------

/// i < 65536: every total length; < 131072: every protocol type; then every PDU length 0..=4200 x label
/// length {0, 3, 6} (the other arguments derived from the index)
fn arg_sweep_case(i: u64) -> RandCase {
    let labels: [Vec<u8>; 3] = [vec![], vec![0x00, 0x80, 0xFF], vec![0xFF, 0x00, 0x5A, 0xA5, 0x01, 0x80]];
    if i < 65536 {
        RandCase { pdu: Pdu { len: (i % 9) as u32, seed: 3 + i as u32 }, total_len: i as u16, ptype: 0x0800, label: labels[(i % 3) as usize].clone() }
    } else if i < 131072 {
        let j = i - 65536;
        RandCase { pdu: Pdu { len: (j % 9) as u32, seed: 3 + j as u32 }, total_len: 100, ptype: j as u16, label: labels[(j % 3) as usize].clone() }
    } else {
        let j = i - 131072;
        let (len, l) = (j % 4201, j / 4201);
        RandCase { pdu: Pdu { len: len as u32, seed: 3 + len as u32 }, total_len: (len as u16).wrapping_mul(31), ptype: (len as u16).wrapping_mul(17), label: labels[l as usize].clone() }
    }
}

fn check_arg_sweep(i: u64, st: &mut Stats) -> Result<(), String> {
    check_rand(&arg_sweep_case(i), st)
}

// ---- part 3: end to end ---------------------------------------------------------------------

#[derive(Clone)]
struct RecCrc {
    log: Rc<RefCell<Vec<(Vec<u8>, u16, u16, Vec<u8>)>>>,
}
impl CrcCalculator for RecCrc {
    fn calculate_crc32(&self, pdu: &[u8], protocol_type: u16, total_length: u16, label: &[u8]) -> u32 {
        self.log.borrow_mut().push((pdu.to_vec(), protocol_type, total_length, label.to_vec()));
        refcrc::gse_crc(total_length, protocol_type, label, pdu)
    }
}

#[derive(Clone, Debug, Serialize, Deserialize, Hash)]
pub struct E2eCase {
    pdu: Pdu,
    lab: Lab,
    ptype: u16,
    frag_id: u8,
    /// send a complete packet with the same label first, so the first fragment is substituted
    prime: bool,
    first_buf: u16,
    cont_buf: u16,
    /// 0: encap; 1: encap_ext with one optional extension; 2: encap_ext with a chain of two
    #[serde(default)]
    ext: u8,
}

fn e2e_strategy(_t: Tier) -> BoxedStrategy<E2eCase> {
    let plen = prop_oneof![
        3 => 1u32..=300,
        4 => 300u32..=9000,
        1 => 9000u32..=65000,
        1 => 65500u32..=65527,
    ];
    bx((plen, pdu_seed(), lab_addr_or_bcast(), ptype_user(), any::<u8>(), any::<bool>(), prop_oneof![4 => 13u16..=4097, 1 => 4098u16..=9000], prop_oneof![4 => 7u16..=4097, 1 => 4098u16..=9000], prop_oneof![3 => Just(0u8), 1 => Just(1u8), 1 => Just(2u8), 1 => Just(3u8)]).prop_map(
        |(len, seed, lab, ptype, frag_id, prime, first_buf, cont_buf, ext)| E2eCase {
            ext,
            pdu: Pdu { len, seed },
            lab,
            ptype,
            frag_id,
            prime,
            first_buf,
            cont_buf,
        },
    ))
}

fn check_e2e(c: &E2eCase, st: &mut Stats) -> Result<(), String> {
    let pdu = c.pdu.bytes();
    // kind 3: the protocol type is the id of the final mandatory extension closing the chain
    let ptype: u16 = if c.ext == 3 { 0x0082 } else { c.ptype };
    let elog = Rc::new(RefCell::new(vec![]));
    let dlog = Rc::new(RefCell::new(vec![]));
    // the two roles are run twice: once with the real DefaultCrc on both sides (what is on
    // the wire), once with recording calculators (what the crate hands to the calculator).
    let mut enc = new_enc();
    let mut renc = Encapsulator::new(RecCrc { log: elog.clone() });
    let mut mem = SimpleGseMemory::new(4, 0, 0, 0);
    let mut rmem = SimpleGseMemory::new(4, 0, 0, 0);
    for _ in 0..3 {
        let _ = mem.provision_storage(vec![0u8; c.pdu.len as usize + 16].into_boxed_slice());
        let _ = rmem.provision_storage(vec![0u8; c.pdu.len as usize + 16].into_boxed_slice());
    }
    let mut dec = Decapsulator::new(mem, DefaultCrc {}, TableManager::all());
    let mut rdec = Decapsulator::new(rmem, RecCrc { log: dlog.clone() }, TableManager::all());

    if c.prime {
        let mut b = vec![0u8; 64];
        let md = EncapMetadata::new(0x0800, c.lab.to_label());
        for which in 0..2 {
            let r = if which == 0 { guard(|| enc.encap(b"prime", 9, md, &mut b)) } else { guard(|| renc.encap(b"prime", 9, md, &mut b)) };
            match r {
                Ok(Ok(EncapStatus::CompletedPkt(n))) => {
                    let pkt = b[..n as usize].to_vec();
                    let r = if which == 0 { guard(|| dec.decap(&pkt).map(|x| x.1)) } else { guard(|| rdec.decap(&pkt).map(|x| x.1)) };
                    if !matches!(r, Ok(Ok(_))) {
                        return st.violation("prime-failed", format!("priming packet not accepted: {:?}", r.map(|x| x.map_err(|e| e.0))));
                    }
                }
                o => return st.violation("prime-failed", format!("priming encap: {:?}", o.map_err(|p| p.0))),
            }
        }
    }
    let exts: Vec<ExtSpec> = match c.ext {
        1 => vec![ExtSpec { id: 0x0301, data: vec![1, 2, 3, 4] }],
        2 => vec![ExtSpec { id: 0x0102, data: vec![] }, ExtSpec { id: 0x0003, data: vec![9, 8] }],
        3 => vec![ExtSpec { id: 0x0301, data: vec![4, 3, 2, 1] }, ExtSpec { id: 0x0082, data: vec![] }],
        _ => vec![],
    };
    let ext_area: usize = if exts.is_empty() { 0 } else { exts.iter().map(|e| e.wire_len()).sum::<usize>() };
    let first_buf = c.first_buf as usize + ext_area;
    st.class_if(!exts.is_empty(), "with-extensions");
    let pkts = match send_pdu(&mut enc, &pdu, c.frag_id, ptype, c.lab, &exts, first_buf, c.cont_buf as usize) {
        Ok(p) => p,
        Err(e) => return st.violation("send-failed", format!("sender failed on in-domain input: {}", e)),
    };
    if pkts.len() < 2 {
        st.class("complete-not-fragmented");
        return Ok(());
    }
    st.class("fragmented");
    // label as written in the first fragment
    let first = match refcodec::parse(&pkts[0], &mand_lookup) {
        Ok(Parsed::Packet(p, _)) => p,
        o => return st.violation("first-unparsable", format!("first fragment does not parse: {:?}", o)),
    };
    let last = pkts.last().unwrap();
    let lastp = match refcodec::parse(last, &mand_lookup) {
        Ok(Parsed::Packet(p, _)) if p.crc.is_some() => p,
        o => return st.violation("end-unparsable", format!("last packet is not an end packet: {:?}", o)),
    };
    let substituted = first.lt == 3 && c.lab.is_addr();
    st.class_if(substituted, "first-fragment-substituted");
    st.class_if(!substituted, "first-fragment-full-label");
    let tl = (2 + first.label.len() + pdu.len()) as u16;
    let want = refcrc::gse_crc(tl, ptype, &first.label, &pdu);
    st.nontrivial(hash_of(c));
    st.sample(|| json!({"case": format!("{:?}", c), "packets": pkts.len(), "label_written": first.label, "crc": format!("{:#010x}", want)}));
    if lastp.crc != Some(want) {
        return st.violation(
            "trailer-mismatch",
            format!("end-packet trailer {:#010x?} != CRC-32/MPEG-2 {:#010x} over tl={} pt={:#06x} label={:02x?} pdu[{}]", lastp.crc, want, tl, ptype, first.label, pdu.len()),
        );
    }
    // the receiver accepts it (it recomputes the same value)
    let mut delivered = false;
    for (i, p) in pkts.iter().enumerate() {
        match guard(|| dec.decap(p)) {
            Ok(Ok((DecapStatus::CompletedPkt(b, md), _))) => {
                if i + 1 != pkts.len() || md.pdu_len() != pdu.len() || b[..pdu.len()] != pdu[..] {
                    return st.violation("receiver-wrong-delivery", format!("delivery at packet {} of {} with pdu_len {}", i, pkts.len(), md.pdu_len()));
                }
                delivered = true;
            }
            Ok(Ok(_)) => {}
            Ok(Err((e, _))) => return st.violation("receiver-rejects", format!("packet {} of {} rejected: {}", i, pkts.len(), err_kind(&e))),
            Err(p) => return st.violation("receiver-panic", format!("decap panicked: {}", p.0)),
        }
    }
    if !delivered {
        return st.violation("receiver-rejects", "no delivery after the end packet".into());
    }
    // recording pass: what the crate gives its calculator
    let rp = match {
        let mut out = vec![];
        let mut buf = vec![0u8; first_buf];
        let md = EncapMetadata::new(ptype, c.lab.to_label());
        let built: Vec<_> = exts.iter().filter_map(|e| e.build().ok()).collect();
        match guard(|| if built.is_empty() { renc.encap(&pdu, c.frag_id, md, &mut buf) } else { renc.encap_ext(&pdu, c.frag_id, md, &mut buf, built) }) {
            Ok(Ok(EncapStatus::FragmentedPkt(n, mut ctx))) => {
                out.push(buf[..n as usize].to_vec());
                loop {
                    let mut b = vec![0u8; c.cont_buf as usize];
                    match guard(|| renc.encap_frag(&pdu, &ctx, &mut b)) {
                        Ok(Ok(EncapStatus::FragmentedPkt(n, c2))) => {
                            out.push(b[..n as usize].to_vec());
                            ctx = c2;
                        }
                        Ok(Ok(EncapStatus::CompletedPkt(n))) => {
                            out.push(b[..n as usize].to_vec());
                            break Ok(out);
                        }
                        o => break Err(format!("{:?}", o.map_err(|p| p.0))),
                    }
                    if out.len() > 70000 {
                        break Err("no completion".into());
                    }
                }
            }
            o => Err(format!("{:?}", o.map_err(|p| p.0))),
        }
    } {
        Ok(p) => p,
        Err(e) => return st.violation("send-failed", format!("recording sender failed: {}", e)),
    };
    {
        let l = elog.borrow();
        let hit = l.iter().any(|(p, pt, t, lb)| p == &pdu && *pt == ptype && *t == tl && lb == &first.label);
        if !hit {
            let seen: Vec<_> = l.iter().map(|(p, pt, t, lb)| (p.len(), *pt, *t, lb.clone())).collect();
            return st.violation("encap-crc-args", format!("encapsulator's calculator never saw (whole pdu, {:#06x}, {}, {:02x?}); saw {:?}", ptype, tl, first.label, seen));
        }
    }
    dlog.borrow_mut().clear();
    for p in rp.iter() {
        let _ = guard(|| rdec.decap(p).map(|x| x.1).map_err(|e| e.1));
    }
    {
        let l = dlog.borrow();
        let hit = l.iter().any(|(p, pt, t, lb)| p == &pdu && *pt == ptype && *t == tl && lb == &first.label);
        if !hit {
            let seen: Vec<_> = l.iter().map(|(p, pt, t, lb)| (p.len(), *pt, *t, lb.clone())).collect();
            return st.violation("decap-crc-args", format!("decapsulator's calculator never saw (reassembled pdu, {:#06x}, {}, {:02x?}); saw {:?}", ptype, tl, first.label, seen));
        }
    }
    Ok(())
}

pub fn property() -> Property {
    Property {
        id: "C12",
        rule: "sweep: every byte value (=> every table index) at every position of messages of 4..=20 bytes on two backgrounds vs a bit-by-bit CRC-32/MPEG-2; random: PDU 0..=65535 x any total length/protocol type x label 0/3/6 bytes vs the reference; end-to-end: fragmented transfers whose end-packet trailer, and the arguments seen by recording calculators injected in both roles, must match the reference. non-trivial = message >= 5 bytes with >= 2 distinct byte values (sweep), PDU non-empty and non-constant (random), really fragmented transfer (end-to-end); distinct by structural hash of the case",
        assumptions: &[
            "reference CRC is a 12-line bitwise routine self-tested against the published check value 0x0376E6E7",
            "RefCodec (harness reading of ETSI TS 102 606) locates label and trailer in emitted packets",
        ],
        parts: vec![
            Box::new(EnumPart {
                name: "table-index-sweep",
                rule: "2 backgrounds x lengths 4..=20 x position x 256 values",
                size: |_| 2 * SWEEP_LENS * SWEEP_POS * 256,
                exhaustive: |_| true,
                check: check_sweep,
                describe: desc_sweep,
                required_classes: &["sweep"],
            }),
            Box::new(EnumPart {
                name: "every-total-length-protocol-type-pdu-length",
                rule: "every 16-bit total length, every 16-bit protocol type (short PDUs, label lengths 0/3/6 in turn), every PDU length 0..=4200 x label length 0/3/6: exhaustive, vs the reference",
                size: |_| 131072 + 4201 * 3,
                exhaustive: |_| true,
                check: check_arg_sweep,
                describe: |_t, i| serde_json::to_value(arg_sweep_case(i)).unwrap_or(Value::Null),
                required_classes: &["label0", "label3", "label6", "pdu>4095", "pdu-empty"],
            }),
            Box::new(GenPart {
                name: "random-inputs",
                rule: "random PDU/total length/protocol type/label",
                cases: (1_200_000, 15_000_000),
                fuzz_decode: None,
                strategy: rand_strategy,
                check: check_rand,
                required_classes: &["label0", "label3", "label6", "pdu>4095", "pdu-empty"],
            }),
            Box::new(GenPart {
                name: "end-to-end",
                rule: "fragmented transfer, trailer and calculator arguments",
                cases: (160_000, 2_000_000),
                fuzz_decode: None,
                strategy: e2e_strategy,
                check: check_e2e,
                required_classes: &["fragmented", "first-fragment-substituted", "first-fragment-full-label", "with-extensions"],
            }),
        ],
    }
}
