//! C02 — fragmented round trip holds for every PDU and every buffer-size schedule.

use crate::common::*;
use crate::engine::{bx, hash_of, EnumPart, GenPart, Property, Stats, Tier};
use dvb_gse_rust::gse_decap::DecapStatus;
use dvb_gse_rust::gse_encap::{ContextFrag, EncapStatus};
use proptest::prelude::*;
use serde::{Deserialize, Serialize};
use serde_json::{json, Value};

#[derive(Clone, Debug, PartialEq, Eq, Hash, Serialize, Deserialize)]
pub struct Case {
    /// history before the PDU under test: complete packets over a small label alphabet (fed to the
    /// receiver too), resets of both sides, re-use settings changes
    #[serde(default)]
    pub pre: Vec<super::c09::PrefixOp>,
    pub reuse: ReuseCfg,
    /// send a complete packet with the same label first (so the first fragment may be substituted)
    pub prime: bool,
    pub pdu: Pdu,
    pub lab: Lab,
    pub ptype: u16,
    pub frag_id: u8,
    pub schedule: Vec<BufSpec>,
    pub tail_base: u16,
    pub tail_span: u16,
    pub storage_extra: u32,
}

fn strategy(t: Tier) -> BoxedStrategy<Case> {
    let len = prop_oneof![
        2 => 1u32..=64,
        3 => 65u32..=4080,
        3 => 4081u32..=4110,
        3 => 4111u32..=20000,
        1 => 20001u32..=65000,
        2 => 65500u32..=65533,
    ];
    let sched = prop::collection::vec(
        prop_oneof![
            2 => (0u32..=12).prop_map(BufSpec::Abs),
            3 => (13u32..=64).prop_map(BufSpec::Abs),
            3 => (65u32..=4097).prop_map(BufSpec::Abs),
            2 => (4098u32..=70000).prop_map(BufSpec::Abs),
            2 => (-4i32..=8).prop_map(BufSpec::RemPlus),
            2 => (-8i32..=8).prop_map(BufSpec::FitPlus),
            1 => (-4i32..=40).prop_map(BufSpec::HdrPlus),
        ],
        1..t.pick(40, 60),
    );
    bx((
        (reuse_cfg(), prop_oneof![2 => Just(vec![]), 1 => super::c09::prefix()]),
        any::<bool>(),
        (len, pdu_seed()),
        prop_oneof![8 => lab_addr_or_bcast(), 1 => Just(Lab::ReUse)],
        ptype_user(),
        any::<u8>(),
        sched,
        (13u16..=4200, 1u16..=4200),
        prop_oneof![3 => Just(0u32), 1 => Just(1u32), 1 => 2u32..70000],
    )
        .prop_map(|((reuse, pre), prime, (len, seed), lab, ptype, frag_id, schedule, (tail_base, tail_span), storage_extra)| {
            let l = lab.len() as u32;
            Case { pre, reuse, prime: prime || lab == Lab::ReUse, pdu: Pdu { len: len.min(65533 - l), seed }, lab, ptype, frag_id, schedule, tail_base, tail_span, storage_extra }
        }))
}

fn check(c: &Case, st: &mut Stats) -> Result<(), String> {
    let pdu = c.pdu.bytes();
    let mut enc = new_enc();
    apply_reuse(&mut enc, c.reuse);
    let storage = pdu.len() + c.storage_extra as usize;
    let mut dec = new_simple_dec(256, 0, &[storage.max(64)], TableManager::all());
    // the label the receiver must report
    let prime_label = if c.lab == Lab::ReUse { Lab::Six(ALPHA6[0]) } else { c.lab };
    let expect_label = prime_label;
    // pre-history, mirrored on the receiver
    for op in &c.pre {
        match op {
            super::c09::PrefixOp::Send(i) => {
                let mut b = vec![0u8; 64];
                match call_encap(&mut enc, b"pre-history", 200, 0x0800, super::c09::alpha_label(*i), &mut b) {
                    Ok(Ok(EncapStatus::CompletedPkt(n))) => {
                        let _ = dec.provision_storage(vec![0u8; 32].into_boxed_slice());
                        match call_decap(&mut dec, &b[..n as usize]) {
                            Ok(Ok((DecapStatus::CompletedPkt(..), _))) => {}
                            o => return st.violation("pre-history-failed", format!("pre-history packet not delivered: {}", show_dec(&o))),
                        }
                    }
                    o => return st.violation("pre-history-failed", format!("pre-history encap: {:?}", o.map_err(|p| p.0))),
                }
            }
            super::c09::PrefixOp::Reset => {
                enc.reset_last_label();
                dec.reset_last_label();
            }
            super::c09::PrefixOp::Cfg(cfg) => apply_reuse(&mut enc, *cfg),
        }
        st.class("with-pre-history");
    }
    // the storage for the PDU under test must be the one on top of the free list
    while dec.new_pdu().is_ok() {}
    let _ = dec.provision_storage(vec![0u8; storage.max(64)].into_boxed_slice());
    if c.prime {
        let mut b = vec![0u8; 64];
        match call_encap(&mut enc, b"prime", c.frag_id.wrapping_add(1), 0x0800, prime_label, &mut b) {
            Ok(Ok(EncapStatus::CompletedPkt(n))) => match call_decap(&mut dec, &b[..n as usize]) {
                Ok(Ok((DecapStatus::CompletedPkt(..), _))) => {}
                o => return st.violation("prime-failed", format!("priming packet not delivered: {}", show_dec(&o))),
            },
            o => return st.violation("prime-failed", format!("priming encap: {:?}", o.map_err(|p| p.0))),
        }
        let _ = dec.provision_storage(vec![0u8; storage].into_boxed_slice());
    } else {
        // replace the start-up storage by one of exactly the wanted size
        let _ = dec.new_pdu();
        let _ = dec.provision_storage(vec![0u8; storage].into_boxed_slice());
    }

    // ---- sender side, exactly as the statement says
    let mut packets: Vec<Vec<u8>> = vec![];
    let mut ctx: Option<ContextFrag> = None;
    let mut done = false;
    let mut credits: usize = 0;
    let mut calls_after_enough = 0usize;
    let mut k = 0usize;
    let mut skipped_mid = false;
    let mut crc_only_end = false;
    let mut big_buffer = false;
    let mut substituted = false;
    while !done {
        let remaining = ctx.map(|c| pdu.len().saturating_sub(c.len_pdu_frag() as usize)).unwrap_or(pdu.len());
        let blen = if k < c.schedule.len() {
            if ctx.is_none() { c.schedule[k].first(pdu.len(), c.lab.len(), 0) } else { c.schedule[k].cont(remaining) }
        } else {
            let j = (k - c.schedule.len()) as u32;
            (c.tail_base as u32 + (j.wrapping_mul(2654435761) >> 9) % (c.tail_span as u32)) as usize
        };
        k += 1;
        if k > 80_000 {
            return st.violation("no-completion", format!("no completed status after 80000 calls (pdu {} bytes)", pdu.len()));
        }
        let mut buf = vec![0u8; blen];
        let r = match ctx {
            None => call_encap(&mut enc, &pdu, c.frag_id, c.ptype, c.lab, &mut buf),
            Some(cx) => call_encap_frag(&enc, &pdu, &cx, &mut buf),
        };
        let r = match r {
            Ok(r) => r,
            Err(p) => return st.violation(&format!("panic {}", p.site()), format!("call #{} (buffer {}, remaining {}) panicked: {}", k, blen, remaining, p.0)),
        };
        if blen > 4097 {
            big_buffer = true;
        }
        match r {
            Err(e) => {
                if blen >= 13 {
                    return st.violation("err-with-buffer>=13", format!("call #{} ({}, buffer {} bytes, remaining {}) -> Err({:?})", k, if ctx.is_none() { "encap" } else { "encap_frag" }, blen, remaining, e));
                }
                st.class("skipped-too-small-buffer");
                if ctx.is_some() {
                    skipped_mid = true;
                }
                continue;
            }
            Ok(s) => {
                if blen >= 13 {
                    credits += blen.min(4097) - 13;
                }
                let (n, nctx) = match s {
                    EncapStatus::CompletedPkt(n) => (n as usize, None),
                    EncapStatus::FragmentedPkt(n, cx) => (n as usize, Some(cx)),
                };
                if n > blen || n < 2 {
                    return st.violation("bad-length", format!("call #{} reported length {} for a {}-byte buffer", k, n, blen));
                }
                if ctx.is_none() && c.lab.is_addr() && (buf[0] >> 4) & 3 == 3 {
                    substituted = true;
                }
                if nctx.is_none() && ctx.is_some() && n == 7 {
                    crc_only_end = true;
                }
                packets.push(buf[..n].to_vec());
                match nctx {
                    None => done = true,
                    Some(cx) => {
                        if let Some(old) = ctx {
                            if cx.len_pdu_frag() <= old.len_pdu_frag() {
                                return st.violation("no-progress", format!("call #{}: context did not advance ({} -> {})", k, old.len_pdu_frag(), cx.len_pdu_frag()));
                            }
                        }
                        ctx = Some(cx);
                    }
                }
            }
        }
        if !done && credits >= pdu.len() && blen >= 13 {
            calls_after_enough += 1;
            if calls_after_enough > 2 {
                return st.violation("late-completion", format!("buffers of >= 13 bytes offering {} bytes of room (each counted as min(b,4097)-13) for a {}-byte PDU, plus 2 further calls, and still no completed status", credits, pdu.len()));
            }
        }
    }
    // ---- receiver side
    let np = packets.len();
    let mut deliveries = 0;
    for (i, p) in packets.iter().enumerate() {
        let r = call_decap(&mut dec, p);
        match &r {
            Err(pn) => return st.violation(&format!("panic {}", pn.site()), format!("decap of packet {}/{} panicked: {}", i + 1, np, pn.0)),
            Ok(Ok((DecapStatus::FragmentedPkt(md), used))) if i + 1 < np => {
                if *used != p.len() {
                    return st.violation("consumed", format!("packet {}/{}: decap consumed {} of {} bytes", i + 1, np, used, p.len()));
                }
                if Lab::of(&md.label()) != expect_label || md.protocol_type() != c.ptype {
                    return st.violation("fragment-metadata", format!("packet {}/{}: fragmented status carries {:?}/{:#06x}, sender passed {:?}/{:#06x}", i + 1, np, md.label(), md.protocol_type(), expect_label, c.ptype));
                }
            }
            Ok(Ok((DecapStatus::CompletedPkt(b, md), used))) if i + 1 == np => {
                deliveries += 1;
                if *used != p.len() {
                    return st.violation("consumed", format!("last packet: decap consumed {} of {} bytes", used, p.len()));
                }
                if md.pdu_len() != pdu.len() || b.len() < pdu.len() || b[..pdu.len()] != pdu[..] {
                    return st.violation("pdu-differs", format!("delivered pdu_len {} (sent {}), bytes equal: {}", md.pdu_len(), pdu.len(), b.len() >= pdu.len() && b[..pdu.len()] == pdu[..]));
                }
                if Lab::of(&md.label()) != expect_label || md.protocol_type() != c.ptype {
                    return st.violation("delivery-metadata", format!("delivered {:?}/{:#06x}, sender passed {:?}/{:#06x}", md.label(), md.protocol_type(), expect_label, c.ptype));
                }
            }
            o => return st.violation("receiver-outcome", format!("packet {}/{} ({}) -> {}", i + 1, np, hex(p), show_dec(o))),
        }
    }
    if deliveries != 1 {
        return st.violation("delivery-count", format!("{} deliveries", deliveries));
    }
    st.class(if np == 1 { "single-packet" } else if np == 2 { "two-packets" } else { ">=3-packets" });
    st.class_if(substituted, "first-label-substituted");
    st.class_if(crc_only_end, "crc-only-end-packet");
    st.class_if(big_buffer, "buffer>4097");
    st.class_if(pdu.len() > 4095, "pdu>4095");
    st.class_if(skipped_mid, "skipped-buffer-mid-train");
    st.class_if(c.lab == Lab::ReUse, "explicit-reuse");
    if np >= 3 && (pdu.len() > 4095 || big_buffer || crc_only_end || substituted || skipped_mid) {
        st.nontrivial(hash_of(c));
    }
    st.sample(|| json!({"pdu_len": c.pdu.len, "label": format!("{:?}", c.lab), "prime": c.prime, "reuse": format!("{:?}", c.reuse), "packets": packets.iter().map(|p| p.len()).collect::<Vec<_>>()}));
    Ok(())
}

// ---- enumerated: every PDU length under uniform buffers ------------------------------------------------

const LEN_TOP: u64 = 65534; // index j stands for PDU length j + 1, clamped to 65533 - label length

fn sweep_case(t: Tier, i: u64) -> Case {
    let n = sweep_lens(t, LEN_TOP);
    let labkind = (i / n) % 4;
    let prof = i / n / 4;
    let lab = match labkind {
        0 => Lab::Six(ALPHA6[0]),
        1 => Lab::Three(ALPHA3[0]),
        2 => Lab::Broadcast,
        _ => Lab::Six(ALPHA6[1]),
    };
    let len = (sweep_len_at(t, LEN_TOP, i % n) + 1).min(65533 - lab.len() as u32);
    let b: u32 = match prof {
        0 => 4097,
        1 => 70000,
        _ => 1021,
    };
    Case {
        pre: vec![],
        reuse: ReuseCfg::Enabled,
        prime: labkind == 3,
        pdu: Pdu { len, seed: 3 + len },
        lab,
        ptype: 0x0600 + ((len as u64 * 7919) % (0x10000 - 0x0600)) as u16,
        frag_id: (len % 256) as u8,
        schedule: vec![BufSpec::Abs(b); if b > 4200 { 20 } else { 1 }],
        tail_base: b.min(4097) as u16,
        tail_span: 1,
        storage_extra: len % 2,
    }
}

fn check_sweep(i: u64, st: &mut Stats) -> Result<(), String> {
    check(&sweep_case(st.tier, i), st)
}

pub fn property() -> Property {
    Property {
        id: "C02",
        rule: "one PDU of 1..=65533-L bytes (classes around 4095 and 65533), any label kind (optionally primed so that the first fragment is substituted; explicit re-use), protocol type >= 0x0600, any frag id, a schedule of 1..40/60 buffer specs (0..=12, 13..64, ..4097, 4098..70000, remaining+3-4..+8, exact fit +-8, header +-) followed by a tail of >= 13-byte buffers; driver as the statement says (encap until Ok, then encap_frag with each returned context; ErrorSizeBuffer = skipped). oracle: a call with a buffer >= 13 never fails; completed no later than 2 calls after the offered room (min(b,4097)-13 per accepted >= 13-byte buffer) reaches the PDU length; the packets, fed in order to a receiver with storage = PDU + {0,1,..}, give FragmentedPkt with the sender's label/protocol type for every non-final packet and exactly one CompletedPkt equal to the original; each decap consumes exactly the reported length. non-trivial = >= 3 packets and (PDU > 4095, a buffer > 4097, a CRC-only end packet, a substituted first label, or a skipped too-small buffer mid-train)",
        assumptions: &["the completion bound credits only min(b,4097)-13 bytes per buffer: maximal filling is not demanded"],
        parts: vec![
        Box::new(EnumPart {
            name: "every-length-x-label-x-uniform-buffer",
            rule: "PDU lengths 1..=65533-L (thorough: every one; quick: 1..=4201, the last 241 and every 13th between) x {6-byte, 3-byte, broadcast, substituted 6-byte label} x a uniform buffer size {4097, 70000, 1021}, so that the end of the PDU falls at every offset of the last buffer; same driver and oracle as the schedules",
            size: |t| sweep_lens(t, LEN_TOP) * 4 * 3,
            exhaustive: |t| t == Tier::Thorough,
            check: check_sweep,
            describe: |t, i| serde_json::to_value(sweep_case(t, i)).unwrap_or(Value::Null),
            required_classes: &[">=3-packets", "first-label-substituted", "crc-only-end-packet", "buffer>4097", "pdu>4095", "single-packet", "two-packets"],
        }),
        Box::new(GenPart {
            name: "schedules",
            rule: "see property rule",
            cases: (480_000, 10_000_000),
            fuzz_decode: Some(crate::fuzzdec::c02_case),
            strategy,
            check,
            required_classes: &[">=3-packets", "with-pre-history", "first-label-substituted", "crc-only-end-packet", "buffer>4097", "pdu>4095", "skipped-buffer-mid-train", "explicit-reuse"],
        })],
    }
}
