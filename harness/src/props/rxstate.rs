//! Receiver state classes shared by C05 / C16: decapsulators brought into a named state
//! through the public API only (RefCodec-built valid traffic + provisioning).

use crate::common::*;
use dvb_gse_rust::gse_decap::{DecapStatus, GseDecapMemory};

pub const N_STATES: u64 = 12;

pub fn state_name(k: u64) -> &'static str {
    match k {
        0 => "fresh: no context, 2 free buffers, no label",
        1 => "no context, free list empty",
        2 => "no context, free list full",
        3 => "context open on id 1 (ids 3,5.. alias it; even ids are 'other')",
        4 => "context on id 1, free list empty",
        5 => "context on id 1, free list over-provisioned afterwards (full)",
        6 => "contexts on both slots (ids 0 and 1)",
        7 => "remembered 3-byte label",
        8 => "remembered 6-byte label",
        9 => "context on id 1 whose storage is exactly full",
        10 => "storages of zero bytes (smaller than any fragment)",
        11 => "context on id 1 opened by a re-use first fragment, label remembered",
        _ => "?",
    }
}

fn feed(d: &mut SimpleDec, pkt: &[u8], expect_fragmented: bool) -> Result<(), String> {
    match call_decap(d, pkt) {
        Ok(Ok((DecapStatus::FragmentedPkt(_), n))) if expect_fragmented && n == pkt.len() => Ok(()),
        Ok(Ok((DecapStatus::CompletedPkt(b, _), n))) if !expect_fragmented && n == pkt.len() => {
            // hand the buffer back like a real caller
            let _ = d.provision_storage(b);
            Ok(())
        }
        o => Err(format!("state building: valid packet {} -> {}", hex(pkt), show_dec(&o))),
    }
}

pub const ST_STORAGE: usize = 24;

/// 2 slots; storages of ST_STORAGE bytes unless stated otherwise
pub fn build_state(k: u64) -> Result<SimpleDec, String> {
    let mgr = TableManager::all();
    let pdu: Vec<u8> = (1..=20u8).collect();
    let first_of = |lab: Lab, id: u8, n: usize| ref_train(lab, 0x0800, id, &pdu, &[n])[0].clone();
    let mut d = match k {
        10 => new_simple_dec(2, 0, &[0, 0], mgr),
        1 => new_simple_dec(2, ST_STORAGE, &[], mgr),
        2 => new_simple_dec(2, ST_STORAGE, &[ST_STORAGE; 4], mgr),
        4 => new_simple_dec(2, ST_STORAGE, &[ST_STORAGE; 1], mgr),
        9 => new_simple_dec(2, 4, &[4, 4], mgr),
        _ => new_simple_dec(2, ST_STORAGE, &[ST_STORAGE; 2], mgr),
    };
    match k {
        0 | 1 | 2 | 10 => {}
        3 | 4 => feed(&mut d, &first_of(Lab::Three([1, 2, 3]), 1, 5), true)?,
        5 => {
            feed(&mut d, &first_of(Lab::Three([1, 2, 3]), 1, 5), true)?;
            for _ in 0..4 {
                let _ = d.memory.provision_storage(vec![0u8; ST_STORAGE].into_boxed_slice());
            }
        }
        6 => {
            feed(&mut d, &first_of(Lab::Broadcast, 0, 4), true)?;
            feed(&mut d, &first_of(Lab::Six([9, 8, 7, 6, 5, 4]), 1, 6), true)?;
        }
        7 => feed(&mut d, &ref_complete(Lab::Three([7, 7, 7]), 0x0800, b"abc", &[], false), false)?,
        8 => feed(&mut d, &ref_complete(Lab::Six([1, 0, 0, 0, 0, 2]), 0x86DD, b"abcd", &[], false), false)?,
        9 => feed(&mut d, &first_of(Lab::Broadcast, 1, 4), true)?,
        11 => {
            feed(&mut d, &ref_complete(Lab::Six([1, 0, 0, 0, 0, 2]), 0x86DD, b"abcd", &[], false), false)?;
            feed(&mut d, &first_of(Lab::ReUse, 1, 5), true)?;
        }
        _ => return Err("unknown state".into()),
    }
    Ok(d)
}
