//! C03 — reassembly delivers only length- and CRC-verified PDUs (no silent corruption).

use super::c13::ext_bytes;
use crate::common::*;
use crate::engine::{bx, hash_of, EnumPart, GenPart, Property, Stats, Tier};
use crate::oracle::refcodec::RefPacket;
use crate::oracle::refcrc;
use crate::oracle::refrx::{delivery_allowed, Eff, RefRx, Seen};
use dvb_gse_rust::gse_decap::{DecapStatus, GseDecapMemory};
use proptest::prelude::*;
use serde::{Deserialize, Serialize};
use serde_json::{json, Value};

#[derive(Clone, Debug, PartialEq, Eq, Hash, Serialize, Deserialize)]
pub struct TrainGen {
    pub id: u8,
    pub lab: Lab,
    pub ptype: u16,
    pub pdu: Pdu,
    pub cuts: Vec<u16>,
    /// true: packets come from the real encapsulator, false: RefCodec
    pub via_encap: bool,
}

#[derive(Clone, Debug, PartialEq, Eq, Hash, Serialize, Deserialize)]
pub enum Fault {
    Drop(u16),
    Dup(u16),
    Swap(u16, u16),
    Flip { pkt: u16, bit: u16 },
    Burst { pkt: u16, bit: u16, len: u8, pattern: u32 },
    Trunc { pkt: u16, at: u16 },
    SetFragId { pkt: u16, v: u8 },
    SetTotal { pkt: u16, v: u16 },
    SetCrc { pkt: u16, v: u32 },
    SetGseLen { pkt: u16, v: u16 },
}

#[derive(Clone, Debug, PartialEq, Eq, Hash, Serialize, Deserialize)]
pub struct Case {
    pub slots: u8,
    /// storage = largest PDU + storage_delta (negative: too small for the largest)
    pub storage_delta: i16,
    pub trains: Vec<TrainGen>,
    pub merge: Vec<u8>,
    pub faults: Vec<Fault>,
    /// after the faults, rewrite the trailer of every end fragment so that it is the correct
    /// CRC-32 of what the reference receiver holds for that id (announced total length,
    /// protocol type, label, payloads actually received): only the length check is left
    /// between a shortened / lengthened train and a delivery
    #[serde(default)]
    pub forge_crc: bool,
}

fn build_train(t: &TrainGen) -> Vec<Vec<u8>> {
    let pdu = t.pdu.bytes();
    if t.via_encap {
        let mut enc = new_enc();
        enc.disable_re_use_label();
        // reproduce the cuts with buffer sizes: first buffer = 7 + L + cut0, continuation = 3 + cut
        let mut out = vec![];
        let l = t.lab.len();
        let c0 = (*t.cuts.first().unwrap_or(&1) as usize).min(pdu.len().saturating_sub(1));
        let mut buf = vec![0u8; 7 + l + c0];
        let mut ctx = match call_encap(&mut enc, &pdu, t.id, t.ptype, t.lab, &mut buf) {
            Ok(Ok(dvb_gse_rust::gse_encap::EncapStatus::FragmentedPkt(n, c))) => {
                out.push(buf[..n as usize].to_vec());
                c
            }
            _ => return ref_train(t.lab, t.ptype, t.id, &pdu, &t.cuts.iter().map(|c| *c as usize).collect::<Vec<_>>()),
        };
        let mut k = 1;
        loop {
            let want = if k < t.cuts.len() { 3 + (t.cuts[k] as usize).max(1) } else { 4097 };
            k += 1;
            let mut b = vec![0u8; want.min(4097)];
            match call_encap_frag(&enc, &pdu, &ctx, &mut b) {
                Ok(Ok(dvb_gse_rust::gse_encap::EncapStatus::FragmentedPkt(n, c))) => {
                    out.push(b[..n as usize].to_vec());
                    ctx = c;
                }
                Ok(Ok(dvb_gse_rust::gse_encap::EncapStatus::CompletedPkt(n))) => {
                    out.push(b[..n as usize].to_vec());
                    return out;
                }
                _ => return ref_train(t.lab, t.ptype, t.id, &pdu, &t.cuts.iter().map(|c| *c as usize).collect::<Vec<_>>()),
            }
            if out.len() > 200 {
                return out;
            }
        }
    } else {
        ref_train(t.lab, t.ptype, t.id, &pdu, &t.cuts.iter().map(|c| *c as usize).collect::<Vec<_>>())
    }
}

fn set_bits(buf: &mut [u8], bit: usize, len: usize, pattern: u32) {
    for k in 0..len {
        let b = bit + k;
        if b / 8 >= buf.len() {
            break;
        }
        // first and last bit of a burst are always in error, the inside follows the pattern
        if k == 0 || k + 1 == len || (pattern >> (k % 32)) & 1 == 1 {
            buf[b / 8] ^= 0x80 >> (b % 8);
        }
    }
}

fn apply_faults(seq: &mut Vec<Vec<u8>>, faults: &[Fault], st: &mut Stats) {
    for f in faults {
        if seq.is_empty() {
            return;
        }
        let n = seq.len();
        match f {
            Fault::Drop(i) => {
                st.class("fault-drop");
                seq.remove(idx16(*i, n));
            }
            Fault::Dup(i) => {
                st.class("fault-dup");
                let k = idx16(*i, n);
                let p = seq[k].clone();
                seq.insert(k + 1, p);
            }
            Fault::Swap(i, j) => {
                st.class("fault-swap");
                seq.swap(idx16(*i, n), idx16(*j, n));
            }
            Fault::Flip { pkt, bit } => {
                st.class("fault-bit-flip");
                let p = &mut seq[idx16(*pkt, n)];
                let b = idx16(*bit, p.len() * 8);
                set_bits(p, b, 1, 0);
            }
            Fault::Burst { pkt, bit, len, pattern } => {
                st.class("fault-burst");
                let p = &mut seq[idx16(*pkt, n)];
                let b = idx16(*bit, p.len() * 8);
                set_bits(p, b, (*len as usize).clamp(2, 32), *pattern);
            }
            Fault::Trunc { pkt, at } => {
                st.class("fault-truncate");
                let p = &mut seq[idx16(*pkt, n)];
                let a = idx16(*at, p.len());
                p.truncate(a);
            }
            Fault::SetFragId { pkt, v } => {
                st.class("fault-frag-id");
                let p = &mut seq[idx16(*pkt, n)];
                if p.len() > 2 && p[0] & 0xC0 != 0xC0 {
                    p[2] = *v;
                }
            }
            Fault::SetTotal { pkt, v } => {
                st.class("fault-total-length");
                let p = &mut seq[idx16(*pkt, n)];
                if p.len() > 4 && p[0] & 0xC0 == 0x80 {
                    p[3..5].copy_from_slice(&v.to_be_bytes());
                }
            }
            Fault::SetCrc { pkt, v } => {
                st.class("fault-crc");
                let p = &mut seq[idx16(*pkt, n)];
                let l = p.len();
                if l >= 7 && p[0] & 0xC0 == 0x40 {
                    p[l - 4..].copy_from_slice(&v.to_be_bytes());
                }
            }
            Fault::SetGseLen { pkt, v } => {
                st.class("fault-gse-length");
                let p = &mut seq[idx16(*pkt, n)];
                if p.len() >= 2 {
                    p[0] = (p[0] & 0xF0) | ((v >> 8) as u8 & 0x0F);
                    p[1] = *v as u8;
                }
            }
        }
    }
}

fn forge_trailers(seq: &mut [Vec<u8>]) -> u32 {
    let mut model = RefRx::new();
    let mut n = 0;
    for p in seq.iter_mut() {
        if let Seen::End { trains, len, .. } = model.observe(p, &mand_lookup) {
            if let Some(t) = trains.last() {
                let crc = crate::oracle::refcrc::gse_crc(t.first.total_len.unwrap_or(0), t.first.ptype.unwrap_or(0), &t.first.label, &t.payload);
                if len >= 4 && len <= p.len() {
                    p[len - 4..len].copy_from_slice(&crc.to_be_bytes());
                    n += 1;
                }
            }
        }
    }
    n
}

/// Feed the packet sequence; judge every delivery by the first sentence of the property.
pub fn feed_and_judge(slots: usize, storage: usize, seq: &[Vec<u8>], st: &mut Stats) -> Result<(u32, u32), String> {
    let mut dec = new_simple_dec(slots, 0, &vec![storage; (slots + 2).min(8)], TableManager::all());
    let mut model = RefRx::new();
    let mut delivered = 0u32;
    let mut ends_with_open_train = 0u32;
    for (i, p) in seq.iter().enumerate() {
        let seen = model.observe(p, &mand_lookup);
        let r = call_decap(&mut dec, p);
        let r = match r {
            Ok(r) => r,
            Err(pn) => {
                st.violation(&format!("panic {}", pn.site()), format!("decap(packet #{} {}) panicked: {}", i, hex(p), pn.0))?;
                return Ok((delivered, ends_with_open_train));
            }
        };
        if let Err((e, _)) = &r {
            // A rejected packet is dropped as a whole, so a reassembly it would have displaced may go
            // on — but only for rejections a receiver can legitimately answer to a first fragment
            // (label, length, extension, storage reasons).  A first fragment refused with an
            // internal-memory error (MemoryCorrupted / UndefinedId) is not such a case: the reassembly
            // in progress must not survive it.
            use dvb_gse_rust::gse_decap::{DecapError as E, DecapMemoryError as M};
            let legitimate = !matches!(e, E::ErrorMemory(M::MemoryCorrupted) | E::ErrorMemory(M::UndefinedId));
            if legitimate {
                model.receiver_rejected_last();
            }
        }
        if let Seen::End { trains, .. } = &seen {
            if !trains.is_empty() {
                ends_with_open_train += 1;
            }
        }
        if let Ok((DecapStatus::CompletedPkt(buf, md), _)) = &r {
            let is_end_header = p.len() >= 2 && p[0] & 0xC0 == 0x40;
            if is_end_header {
                delivered += 1;
                match &seen {
                    Seen::End { pkt, trains, .. } => {
                        // allowed iff some candidate reading verifies and matches what was delivered
                        let mut reasons: Vec<String> = vec![];
                        if trains.is_empty() {
                            reasons.push("no first fragment of that fragment id was received since the last end fragment".into());
                        }
                        let mut ok = false;
                        for t in trains {
                            if let Err(why) = delivery_allowed(t, pkt) {
                                reasons.push(why);
                                continue;
                            }
                            if md.pdu_len() != t.payload.len() || buf.len() < t.payload.len() || buf[..t.payload.len()] != t.payload[..] {
                                reasons.push(format!("delivered bytes are not the concatenation of the received payloads (pdu_len {} vs {})", md.pdu_len(), t.payload.len()));
                                continue;
                            }
                            let exts: Vec<(u16, Vec<u8>)> = md.extensions().iter().map(ext_bytes).collect();
                            if md.protocol_type() != t.first.ptype.unwrap_or(0) || exts != t.first.exts {
                                reasons.push(format!("delivered ptype {:#06x} / exts {:?}, first fragment carried {:?} / {:?}", md.protocol_type(), exts, t.first.ptype, t.first.exts));
                                continue;
                            }
                            match &t.label {
                                Eff::Known(Some(l)) if Lab::of(&md.label()) != *l => {
                                    reasons.push(format!("delivered label {:?}, the first fragment's label is {:?}", md.label(), l));
                                    continue;
                                }
                                Eff::Known(None) => {
                                    reasons.push(format!("the first fragment carried re-use with no label to re-use, yet a PDU was delivered with label {:?}", md.label()));
                                    continue;
                                }
                                _ => {}
                            }
                            ok = true;
                            break;
                        }
                        if !ok {
                            st.violation("unverified-delivery", format!("packet #{} ({}) delivered a {}-byte PDU but: {} [sequence of {} packets]", i, hex(p), md.pdu_len(), reasons.join(" | "), seq.len()))?;
                            return Ok((delivered, ends_with_open_train));
                        }
                    }
                    other => {
                        st.violation("unverified-delivery", format!("packet #{} ({}) delivered a PDU but the reference reading is {:?}", i, hex(p), other))?;
                        return Ok((delivered, ends_with_open_train));
                    }
                }
            }
            let _ = dec.memory.provision_storage(buf.clone());
        }
    }
    Ok((delivered, ends_with_open_train))
}

fn check(c: &Case, st: &mut Stats) -> Result<(), String> {
    let trains: Vec<Vec<Vec<u8>>> = c.trains.iter().map(build_train).collect();
    let mut next = vec![0usize; trains.len()];
    let mut seq: Vec<Vec<u8>> = vec![];
    for m in &c.merge {
        let t = *m as usize % trains.len();
        if next[t] < trains[t].len() {
            seq.push(trains[t][next[t]].clone());
            next[t] += 1;
        }
    }
    for t in 0..trains.len() {
        while next[t] < trains[t].len() {
            seq.push(trains[t][next[t]].clone());
            next[t] += 1;
        }
    }
    apply_faults(&mut seq, &c.faults, st);
    if c.forge_crc && forge_trailers(&mut seq) > 0 {
        st.class("forged-consistent-crc");
    }
    let maxp = c.trains.iter().map(|t| t.pdu.len as i64).max().unwrap_or(0);
    let storage = (maxp + c.storage_delta as i64).max(0) as usize;
    let (delivered, ends_open) = feed_and_judge(slots_of(c.slots), storage, &seq, st)?;
    st.class_if(delivered > 0, "delivered-some");
    st.class_if(delivered == 0, "delivered-none");
    st.class_if(c.faults.is_empty(), "no-fault");
    st.class_if(c.trains.iter().any(|t| t.via_encap), "train-from-encapsulator");
    let ids: Vec<u8> = c.trains.iter().map(|t| t.id).collect();
    st.class_if(ids.iter().enumerate().any(|(i, a)| ids[..i].contains(a)), "spliced-same-id");
    if !c.faults.is_empty() && ends_open > 0 {
        st.nontrivial(hash_of(c));
    }
    st.sample(|| json!({"slots": c.slots, "storage": storage, "trains": c.trains.iter().map(|t| json!({"id": t.id, "pdu_len": t.pdu.len, "label": format!("{:?}", t.lab), "cuts": t.cuts, "via_encap": t.via_encap})).collect::<Vec<_>>(), "faults": format!("{:?}", c.faults), "packets": seq.len(), "delivered": delivered}));
    Ok(())
}

fn strategy(t: Tier) -> BoxedStrategy<Case> {
    let _ = t;
    let train = (prop_oneof![8 => 0u8..4, 2 => any::<u8>(), 1 => Just(255u8), 1 => Just(128u8)], lab_any_valid(), ptype_user(), (prop_oneof![4 => 2u32..80, 2 => 80u32..1500, 1 => 1500u32..9000], pdu_seed()), prop::collection::vec(prop_oneof![3 => 1u16..30, 1 => 30u16..1200], 1..4), any::<bool>())
        .prop_map(|(id, lab, ptype, (len, seed), cuts, via_encap)| TrainGen { id, lab, ptype, pdu: Pdu { len, seed }, cuts, via_encap: via_encap && lab != Lab::ReUse });
    let fault = prop_oneof![
        2 => any::<u16>().prop_map(Fault::Drop),
        2 => any::<u16>().prop_map(Fault::Dup),
        1 => (any::<u16>(), any::<u16>()).prop_map(|(a, b)| Fault::Swap(a, b)),
        3 => (any::<u16>(), any::<u16>()).prop_map(|(pkt, bit)| Fault::Flip { pkt, bit }),
        4 => (any::<u16>(), any::<u16>(), 2u8..=32, any::<u32>()).prop_map(|(pkt, bit, len, pattern)| Fault::Burst { pkt, bit, len, pattern }),
        2 => (any::<u16>(), any::<u16>()).prop_map(|(pkt, at)| Fault::Trunc { pkt, at }),
        1 => (any::<u16>(), any::<u8>()).prop_map(|(pkt, v)| Fault::SetFragId { pkt, v }),
        2 => (any::<u16>(), any::<u16>()).prop_map(|(pkt, v)| Fault::SetTotal { pkt, v }),
        2 => (any::<u16>(), any::<u32>()).prop_map(|(pkt, v)| Fault::SetCrc { pkt, v }),
        1 => (any::<u16>(), 0u16..4096).prop_map(|(pkt, v)| Fault::SetGseLen { pkt, v }),
    ];
    bx((prop_oneof![5 => 1u8..=4, 1 => Just(0u8)], prop_oneof![3 => Just(0i16), 1 => 1i16..100, 1 => -40i16..0], prop::collection::vec(train, 1..=3), prop::collection::vec(0u8..3, 0..16), prop::collection::vec(fault, 0..=2), prop_oneof![2 => Just(false), 1 => Just(true)])
        .prop_map(|(slots, storage_delta, trains, merge, faults, forge_crc)| Case { slots, storage_delta, trains, merge, faults, forge_crc }))
}

// ---- exhaustive single-bit sweep over small trains ---------------------------------------------

const SWEEP_TRAINS: u64 = 200;
const SWEEP_BITS: u64 = 64 * 8;

fn sweep_train(t: u64) -> Vec<Vec<u8>> {
    let labs = [Lab::Broadcast, Lab::Three([1, 2, 3]), Lab::Six([6, 5, 4, 3, 2, 1]), Lab::Three([0, 0, 0])];
    let lab = labs[(t % 4) as usize];
    let len = 3 + (t / 4) % 17;
    let pdu = pdu_bytes(len as usize, 300 + t as u32);
    let cuts: Vec<usize> = if t % 3 == 0 { vec![1 + (t % 2) as usize] } else { vec![1, 1 + (t % 3) as usize] };
    ref_train(lab, 0x0800 + t as u16, (t % 7) as u8, &pdu, &cuts)
}

fn check_sweep(i: u64, st: &mut Stats) -> Result<(), String> {
    let t = i / SWEEP_BITS;
    let bit = (i % SWEEP_BITS) as usize;
    let mut seq = sweep_train(t);
    let total_bits: usize = seq.iter().map(|p| p.len() * 8).sum();
    if bit >= total_bits {
        st.class("skipped-index");
        return Ok(());
    }
    let mut b = bit;
    for p in seq.iter_mut() {
        if b < p.len() * 8 {
            p[b / 8] ^= 0x80 >> (b % 8);
            break;
        }
        b -= p.len() * 8;
    }
    let (delivered, ends_open) = feed_and_judge(2, 64, &seq, st)?;
    st.class("bit-flipped");
    st.class_if(delivered > 0, "delivered-despite-flip(allowed-by-first-sentence)");
    if ends_open > 0 {
        st.nontrivial_distinct(1);
    }
    Ok(())
}

fn desc_sweep(_t: Tier, i: u64) -> Value {
    json!({"train": i / SWEEP_BITS, "packets": sweep_train(i / SWEEP_BITS).iter().map(|p| hex(p)).collect::<Vec<_>>(), "flipped_bit": i % SWEEP_BITS})
}

// ---- every announced total length for tiny trains with a consistent (forged) CRC ----------------------------

const TL_VALUES: u64 = 64 + 8; // 0..=63 and a few large ones
const TL_SHAPES: u64 = 3 * 3 * 4; // first payload 0..=2 x end payload 0..=2 x label case

fn tl_value(k: u64) -> u16 {
    if k < 64 {
        k as u16
    } else {
        [255u16, 256, 4095, 4096, 32768, 65534, 65535, 257][(k - 64) as usize]
    }
}

/// (packet sequence, announced total length, consistent total length)
fn tl_case(i: u64) -> (Vec<Vec<u8>>, u16, u16) {
    let (shape, k) = (i % TL_SHAPES, i / TL_SHAPES);
    let (p0, p1, labcase) = ((shape % 3) as usize, ((shape / 3) % 3) as usize, shape / 9);
    let announced = tl_value(k);
    let lab = match labcase {
        0 => Lab::Six([6, 5, 4, 3, 2, 1]),
        1 => Lab::Three([1, 2, 3]),
        2 => Lab::Broadcast,
        _ => Lab::ReUse,
    };
    let pdu = pdu_bytes(p0 + p1, 700 + shape as u32);
    let label = lab.bytes();
    let ptype = 0x0800 + shape as u16;
    // the CRC a sender announcing `announced` would have computed over what is actually carried: only the
    // comparison of the announced with the received length stands between this train and a delivery
    let crc = refcrc::gse_crc(announced, ptype, &label, &pdu);
    let first = RefPacket { start: true, end: false, lt: lab.lt(), frag_id: Some(3), total_len: Some(announced), label: label.clone(), exts: vec![], ptype: Some(ptype), first_type: None, payload: pdu[..p0].to_vec(), crc: None }.encode(false);
    let end = RefPacket { start: false, end: true, lt: 3, frag_id: Some(3), total_len: None, label: vec![], exts: vec![], ptype: None, first_type: None, payload: pdu[p0..].to_vec(), crc: Some(crc) }.encode(false);
    let mut seq = vec![];
    if lab == Lab::ReUse {
        // a labelled complete packet first, so that the re-use label resolves
        seq.push(ref_complete(Lab::Three([9, 9, 9]), 0x0800, &[1, 2, 3], &[], false));
    }
    seq.push(first);
    seq.push(end);
    (seq, announced, (2 + label.len() + p0 + p1) as u16)
}

fn check_tl(i: u64, st: &mut Stats) -> Result<(), String> {
    let (seq, announced, consistent) = tl_case(i);
    let (delivered, ends_open) = feed_and_judge(2, 64, &seq, st)?;
    st.class(if announced == consistent { "announced==received" } else if announced < consistent { "announced<received" } else { "announced>received" });
    st.class_if(delivered > 0, "delivered");
    if ends_open > 0 {
        st.nontrivial_distinct(1);
    }
    Ok(())
}

// ---- trains longer than announced by a multiple of 65536, into storages above 65535 bytes ------

#[derive(Clone, Debug, PartialEq, Eq, Hash, Serialize, Deserialize)]
pub struct LongCase {
    pub lab: Lab,
    /// announced PDU length
    pub announced: u16,
    /// received length = announced + 65536 + delta
    pub delta: i8,
    pub first_payload: u16,
    pub frag_payload: u16,
    pub storage: u32,
}

fn long_strategy(_t: Tier) -> BoxedStrategy<LongCase> {
    bx((lab_addr_or_bcast(), 1u16..3000, prop_oneof![3 => Just(0i8), 1 => -3i8..=3], 0u16..3000, 3500u16..=4094, 70_000u32..=140_000)
        .prop_map(|(lab, announced, delta, first_payload, frag_payload, storage)| LongCase { lab, announced, delta, first_payload, frag_payload, storage }))
}

fn check_long(c: &LongCase, st: &mut Stats) -> Result<(), String> {
    use crate::oracle::refcodec::RefPacket;
    let target = (c.announced as i64 + 65536 + c.delta as i64) as usize;
    let l = c.lab.bytes();
    let total_len = (2 + l.len() + c.announced as usize) as u16;
    let mk = |start: bool, end: bool, payload: Vec<u8>| -> Vec<u8> {
        RefPacket { start, end, lt: if start { c.lab.lt() } else { 3 }, frag_id: Some(9), total_len: if start { Some(total_len) } else { None }, label: if start { l.clone() } else { vec![] }, exts: vec![], ptype: if start { Some(0x0800) } else { None }, first_type: None, payload, crc: if end { Some(0) } else { None } }.encode(false)
    };
    // the end fragment must carry enough that the intermediates stay <= 65535 in total
    let end_payload = (target.saturating_sub(65535)).max(1).min(4090).max((c.announced as usize + 2).min(4090));
    let mut seq = vec![mk(true, false, pdu_bytes((c.first_payload as usize).min(c.announced as usize), 1))];
    let mut carried = (c.first_payload as usize).min(c.announced as usize);
    let mut k = 0u32;
    while carried + end_payload < target {
        let n = (c.frag_payload as usize).min(target - end_payload - carried);
        k += 1;
        seq.push(mk(false, false, pdu_bytes(n, 10 + k)));
        carried += n;
        if seq.len() > 40 {
            break;
        }
    }
    seq.push(mk(false, true, pdu_bytes(target - carried, 7)));
    forge_trailers(&mut seq);
    st.class(if c.delta == 0 { "exactly-65536-longer" } else { "near-65536-longer" });
    let (delivered, ends_open) = feed_and_judge(1, c.storage as usize, &seq, st)?;
    st.class_if(delivered > 0, "delivered(must be a verified one)");
    if ends_open > 0 {
        st.nontrivial(hash_of(c));
        st.class("end-arrived-with-open-train");
    }
    st.sample(|| json!({"announced": c.announced, "received": target, "fragments": seq.len(), "storage": c.storage}));
    Ok(())
}

pub fn property() -> Property {
    Property {
        id: "C03",
        rule: "generated: 1..3 fragment trains (from the real encapsulator or built by RefCodec with arbitrary splits; ids drawn from 0..4 so trains get spliced on one id and alias in memories of 1..4 slots), merged in a random order-preserving interleaving, then 0..2 faults: drop / duplicate / swap of a packet, single-bit flip, burst of 2..32 bits at any bit offset (header bits included), truncation at any byte, overwrite of frag id / total length / CRC / GSE length; receiver storage equal to, larger or smaller than the PDUs. enumerated: every single-bit flip of 200 small RefCodec trains (<= 64 bytes). oracle (first sentence of the property, evaluated on the bytes actually received by a reference receiver): a CompletedPkt at an end fragment is allowed only if a first fragment of that id is open and the concatenated payloads since it have the announced length and a reference CRC-32 over total length, protocol type, label bytes as carried and payload equal to the trailer; delivered bytes/length/protocol type/label/extensions must be that concatenation and the first fragment's fields. non-trivial = at least one fault and an end fragment arriving while the reference holds an open train for it",
        assumptions: &[
            "RefCodec decides which received packets are well-formed fragments of an id; S=0 packets are accepted with any label-type bits other than the padding pattern, as the crate does",
            "a wrong delivery that needs a CRC-32 collision (2^-32 per case) is out of reach of sampling",
        ],
        parts: vec![
            Box::new(GenPart {
                name: "faulted-trains",
                rule: "see property rule",
                cases: (2_000_000, 40_000_000),
                fuzz_decode: Some(crate::fuzzdec::c03_case),
                strategy,
                check,
                required_classes: &["delivered-some", "delivered-none", "no-fault", "train-from-encapsulator", "spliced-same-id", "fault-drop", "fault-dup", "fault-burst", "fault-truncate", "fault-crc", "fault-total-length", "forged-consistent-crc"],
            }),
            Box::new(GenPart {
                name: "overlong-trains-huge-storage",
                rule: "trains longer than announced by 65536 + {-3..3} bytes with a consistent (forged) CRC, into storages of 70000..140000 bytes: only an untruncated length comparison rejects them",
                cases: (4_000, 100_000),
                fuzz_decode: None,
                strategy: long_strategy,
                check: check_long,
                required_classes: &["exactly-65536-longer", "end-arrived-with-open-train"],
            }),
            Box::new(EnumPart {
                name: "every-announced-total-length-x-tiny-train",
                rule: "first fragment with 0..=2 payload bytes + end fragment with 0..=2 payload bytes (incl. the empty train) x {6-byte, 3-byte, broadcast, resolvable re-use label} x announced total length 0..=63, 255, 256, 257, 4095, 4096, 32768, 65534, 65535, the end fragment carrying the CRC a sender announcing that length would have computed: exhaustive; a delivery is allowed only when the announced length is the received one",
                size: |_| TL_VALUES * TL_SHAPES,
                exhaustive: |_| true,
                check: check_tl,
                describe: |_t, i| { let (seq, a, c) = tl_case(i); json!({"announced_total_length": a, "consistent_total_length": c, "packets": seq.iter().map(|p| hex(p)).collect::<Vec<_>>()}) },
                required_classes: &["announced==received", "announced<received", "announced>received", "delivered"],
            }),
            Box::new(EnumPart {
                name: "every-single-bit-flip",
                rule: "200 small trains x every bit",
                size: |_| SWEEP_TRAINS * SWEEP_BITS,
                exhaustive: |_| true,
                check: check_sweep,
                describe: desc_sweep,
                required_classes: &["bit-flipped"],
            }),
        ],
    }
}
