//! C20 — packet structs in `utils` serialise and parse consistently with the codec.

use crate::common::*;
use crate::engine::{bx, guard, hash_of, EnumPart, GenPart, Property, Stats, Tier};
use crate::oracle::refcodec::RefPacket;
use dvb_gse_rust::crc::CrcCalculator;
use dvb_gse_rust::gse_decap::{DecapStatus, Decapsulator, GseDecapMemory, SimpleGseMemory};
use dvb_gse_rust::gse_encap::{ContextFrag, EncapStatus};
use dvb_gse_rust::utils::{GseCompletePacket, GseEndFragPacket, GseFirstFragPacket, GseIntermediatePacket, Serialisable};
use proptest::prelude::*;
use serde::{Deserialize, Serialize};
use serde_json::{json, Value};

#[derive(Clone, Debug, PartialEq, Eq, Hash, Serialize, Deserialize)]
pub enum Desc {
    Complete { lab: Lab, ptype: u16, payload: Pdu },
    /// total length = 2 + label + payload + extra
    First { lab: Lab, frag_id: u8, ptype: u16, payload: Pdu, extra: u16 },
    Inter { frag_id: u8, payload: Pdu, pos: u16, extra: u16 },
    End { frag_id: u8, payload: Pdu, pos: u16, crc: u32 },
}

#[derive(Clone, Debug, PartialEq, Eq, Hash, Serialize, Deserialize)]
pub struct Case {
    pub d: Desc,
    /// extra bytes in the generate buffer / after the packet when parsing
    pub slack: u8,
}

struct ConstCrc(u32);
impl CrcCalculator for ConstCrc {
    fn calculate_crc32(&self, _: &[u8], _: u16, _: u16, _: &[u8]) -> u32 {
        self.0
    }
}

fn strategy(_t: Tier) -> BoxedStrategy<Case> {
    let pay = |lo: u32| (prop_oneof![3 => lo..=40u32, 3 => 40u32..=1000, 2 => 1000u32..=4000], pdu_seed()).prop_map(|(len, seed)| Pdu { len, seed });
    let d = prop_oneof![
        (lab_any_valid(), ptype_user(), pay(0)).prop_map(|(lab, ptype, payload)| Desc::Complete { lab, ptype, payload }),
        (lab_any_valid(), any::<u8>(), ptype_user(), pay(0), prop_oneof![Just(4u16), 4u16..2000, 2000u16..60000]).prop_map(|(lab, frag_id, ptype, payload, extra)| Desc::First { lab, frag_id, ptype, payload, extra }),
        (any::<u8>(), pay(1), 0u16..3000, 1u16..3000).prop_map(|(frag_id, payload, pos, extra)| Desc::Inter { frag_id, payload, pos, extra }),
        (any::<u8>(), pay(0), 1u16..3000, any::<u32>()).prop_map(|(frag_id, payload, pos, crc)| Desc::End { frag_id, payload, pos, crc }),
    ];
    bx((d, 0u8..20).prop_map(|(d, slack)| Case { d, slack }))
}

fn check(c: &Case, st: &mut Stats) -> Result<(), String> {
    let slack = c.slack as usize;
    macro_rules! gen_parse {
        ($ty:ident, $d:expr, $n:expr) => {{
            let n: usize = $n;
            let mut buf = vec![0x5Au8; n + slack];
            if let Err(p) = guard(|| $d.generate(&mut buf)) {
                return st.violation("generate-panic", format!("{}::generate panicked: {} for {:?}", stringify!($ty), p.0, c.d));
            }
            if buf[n..].iter().any(|b| *b != 0x5A) {
                return st.violation("generate-writes-beyond", format!("{}::generate wrote beyond gse_len + 2 for {:?}", stringify!($ty), c.d));
            }
            match guard(|| $ty::parse(&buf).map(|p| p == $d)) {
                Ok(Ok(true)) => {}
                Ok(Ok(false)) => return st.violation("parse-differs", format!("{}::parse(generate(d)) != d for {:?}", stringify!($ty), c.d)),
                Ok(Err(e)) => return st.violation("parse-error", format!("{}::parse(generate(d)) -> Err({}) for {:?}", stringify!($ty), e, c.d)),
                Err(p) => return st.violation("parse-panic", format!("{}::parse panicked: {} for {:?}", stringify!($ty), p.0, c.d)),
            }
            buf.truncate(n);
            buf
        }};
    }
    // the encapsulator the descriptions are compared with: re-use disabled (every label is written),
    // but only after it has already sent the description's own label with re-use on, so that a label
    // memory surviving the switch-off would show
    let mut enc = new_enc();
    let own_label = match &c.d {
        Desc::Complete { lab, .. } | Desc::First { lab, .. } if lab.is_addr() => Some(*lab),
        _ => None,
    };
    if let (Some(l), true) = (own_label, c.slack % 2 == 1) {
        let mut b = [0u8; 32];
        let _ = call_encap(&mut enc, b"x", 0, 0x0800, l, &mut b);
        st.class("encapsulator-knew-the-label-before-disable");
    }
    enc.disable_re_use_label();
    let nt;
    match &c.d {
        Desc::Complete { lab, ptype, payload } => {
            st.class("complete");
            let pdu = payload.bytes();
            nt = !pdu.is_empty();
            let gse_len = 2 + lab.len() + pdu.len();
            let d = GseCompletePacket::new(gse_len as u16, *ptype, lab.to_label(), &pdu);
            let wire = gen_parse!(GseCompletePacket, d, gse_len + 2);
            // independent reading
            let r = RefPacket { start: true, end: true, lt: lab.lt(), frag_id: None, total_len: None, label: lab.bytes(), exts: vec![], ptype: Some(*ptype), first_type: None, payload: pdu.clone(), crc: None }.encode(false);
            if r != wire {
                return st.violation("generate-vs-standard", format!("GseCompletePacket::generate = {} but the standard layout is {}", hex(&wire), hex(&r)));
            }
            // encapsulator emits the same bytes
            let mut b = vec![0u8; gse_len + 2];
            match call_encap(&mut enc, &pdu, 0, *ptype, *lab, &mut b) {
                Ok(Ok(EncapStatus::CompletedPkt(n))) if n as usize == gse_len + 2 && b == wire => {}
                o => return st.violation("generate-vs-encap", format!("encap for the same fields: {:?} bytes {} vs generate {}", o.map_err(|p| p.0), hex(&b), hex(&wire))),
            }
            // decapsulator accepts with the same values
            let bufs = if *lab == Lab::ReUse { vec![pdu.len(), 16] } else { vec![pdu.len()] };
            let mut dec = new_simple_dec(1, 0, &bufs, TableManager::all());
            let mut expect = *lab;
            if *lab == Lab::ReUse {
                let prime = GseCompletePacket::new(2 + 3 + 1, 0x0800, Lab::Three([4, 5, 6]).to_label(), b"x");
                let mut pb = vec![0u8; 8];
                let _ = guard(|| prime.generate(&mut pb));
                let _ = call_decap(&mut dec, &pb);
                expect = Lab::Three([4, 5, 6]);
            }
            match call_decap(&mut dec, &wire) {
                Ok(Ok((DecapStatus::CompletedPkt(b, md), n))) if n == wire.len() && md.pdu_len() == pdu.len() && b[..pdu.len()] == pdu[..] && md.protocol_type() == *ptype && Lab::of(&md.label()) == expect => {}
                o => return st.violation("decap-differs", format!("decap(generate(d)) = {} for {:?}", show_dec(&o), c.d)),
            }
        }
        Desc::First { lab, frag_id, ptype, payload, extra } => {
            st.class("first");
            let pay = payload.bytes();
            nt = !pay.is_empty();
            let gse_len = 1 + 2 + 2 + lab.len() + pay.len();
            let total = (2 + lab.len() + pay.len() + *extra as usize).min(65535);
            let extra = total - 2 - lab.len() - pay.len();
            let d = GseFirstFragPacket::new(gse_len as u16, *frag_id, total as u16, *ptype, lab.to_label(), &pay);
            let wire = gen_parse!(GseFirstFragPacket, d, gse_len + 2);
            let r = RefPacket { start: true, end: false, lt: lab.lt(), frag_id: Some(*frag_id), total_len: Some(total as u16), label: lab.bytes(), exts: vec![], ptype: Some(*ptype), first_type: None, payload: pay.clone(), crc: None }.encode(false);
            if r != wire {
                return st.violation("generate-vs-standard", format!("GseFirstFragPacket::generate = {} but the standard layout is {}", hex(&wire), hex(&r)));
            }
            if extra >= 4 {
                st.class("first-compared-with-encap");
                let mut pdu = pay.clone();
                pdu.extend(pdu_bytes(extra, 99));
                let mut b = vec![0u8; gse_len + 2];
                match call_encap(&mut enc, &pdu, *frag_id, *ptype, *lab, &mut b) {
                    Ok(Ok(EncapStatus::FragmentedPkt(n, cx))) => {
                        // "the same fields": the description is re-derived from what the encapsulator chose to
                        // carry (it need not fill the buffer), then generate must reproduce its bytes exactly
                        let carried = (cx.len_pdu_frag() as usize).min(pdu.len());
                        let n = (n as usize).min(b.len());
                        let d2 = GseFirstFragPacket::new((n - 2) as u16, *frag_id, total as u16, *ptype, lab.to_label(), &pdu[..carried]);
                        let mut w2 = vec![0u8; n];
                        if let Err(p) = guard(|| d2.generate(&mut w2)) {
                            return st.violation("generate-panic", format!("GseFirstFragPacket::generate panicked: {}", p.0));
                        }
                        if w2[..] != b[..n] {
                            return st.violation("generate-vs-encap", format!("encap emitted {} but generate for the same fields gives {}", hex(&b[..n]), hex(&w2)));
                        }
                    }
                    Ok(Err(e)) if b.len() >= 13 => return st.violation("encap-refuses-valid-description", format!("encap -> Err({:?}) for {:?} with a {}-byte buffer", e, c.d, b.len())),
                    Ok(Ok(_)) | Ok(Err(_)) => st.class("encap-did-not-fragment-here"),
                    Err(p) => return st.violation("encap-panic", format!("encap panicked: {}", p.0)),
                }
            }
            let bufs = if *lab == Lab::ReUse { vec![total, 16] } else { vec![total] };
            let mut dec = new_simple_dec(1, 0, &bufs, TableManager::all());
            let mut expect = *lab;
            if *lab == Lab::ReUse {
                let _ = call_decap(&mut dec, &ref_complete(Lab::Three([4, 5, 6]), 0x0800, b"x", &[], false));
                expect = Lab::Three([4, 5, 6]);
            }
            match call_decap(&mut dec, &wire) {
                Ok(Ok((DecapStatus::FragmentedPkt(md), n))) if n == wire.len() && md.protocol_type() == *ptype && Lab::of(&md.label()) == expect => {}
                o => return st.violation("decap-differs", format!("decap(generate(d)) = {} for {:?}", show_dec(&o), c.d)),
            }
            // the stored context has the announced total length and the payload
            match guard(|| dec.memory.take_frag(*frag_id)) {
                Ok(Ok((cx, b))) if cx.total_len as usize == total && cx.pdu_len as usize == pay.len() && b[..pay.len()] == pay[..] && cx.frag_id == *frag_id => {}
                o => return st.violation("decap-context-differs", format!("context after decap(generate(d)): {:?} for {:?}", o.map(|r| r.map(|(cx, _)| cx)).map_err(|p| p.0), c.d)),
            }
        }
        Desc::Inter { frag_id, payload, pos, extra } => {
            st.class("intermediate");
            let pay = payload.bytes();
            nt = true;
            let gse_len = 1 + pay.len();
            let d = GseIntermediatePacket::new(gse_len as u16, *frag_id, &pay);
            let wire = gen_parse!(GseIntermediatePacket, d, gse_len + 2);
            let r = RefPacket { start: false, end: false, lt: 3, frag_id: Some(*frag_id), total_len: None, label: vec![], exts: vec![], ptype: None, first_type: None, payload: pay.clone(), crc: None }.encode(false);
            if r != wire {
                return st.violation("generate-vs-standard", format!("GseIntermediatePacket::generate = {} but the standard layout is {}", hex(&wire), hex(&r)));
            }
            // encap_frag from a context at `pos` with more than the payload remaining
            let mut pdu = pdu_bytes(*pos as usize, 5);
            pdu.extend_from_slice(&pay);
            pdu.extend(pdu_bytes(*extra as usize, 6));
            let cx = ContextFrag::new(*frag_id, 0xABCD_EF01, *pos);
            let mut b = vec![0u8; gse_len + 2];
            match call_encap_frag(&enc, &pdu, &cx, &mut b) {
                Ok(Ok(EncapStatus::FragmentedPkt(n, c2))) => {
                    let n = (n as usize).min(b.len());
                    let carried = (c2.len_pdu_frag() as usize).saturating_sub(*pos as usize).min(pdu.len() - *pos as usize);
                    let d2 = GseIntermediatePacket::new((n - 2) as u16, *frag_id, &pdu[*pos as usize..*pos as usize + carried]);
                    let mut w2 = vec![0u8; n];
                    if let Err(p) = guard(|| d2.generate(&mut w2)) {
                        return st.violation("generate-panic", format!("GseIntermediatePacket::generate panicked: {}", p.0));
                    }
                    if w2[..] != b[..n] {
                        return st.violation("generate-vs-encap", format!("encap_frag emitted {} but generate for the same fields gives {}", hex(&b[..n]), hex(&w2)));
                    }
                }
                Ok(Err(e)) if b.len() >= 7 => return st.violation("encap-refuses-valid-description", format!("encap_frag -> Err({:?}) for {:?} with a {}-byte buffer", e, c.d, b.len())),
                Ok(Ok(_)) | Ok(Err(_)) => st.class("encap-did-not-fragment-here"),
                Err(p) => return st.violation("encap-panic", format!("encap_frag panicked: {}", p.0)),
            }
            // receiver: first (RefCodec) + this intermediate + end (utils) => delivered = concatenation
            let head = pdu_bytes(3, 8);
            let tail = pdu_bytes(2, 9);
            let total = 2 + head.len() + pay.len() + tail.len();
            let first = RefPacket { start: true, end: false, lt: 2, frag_id: Some(*frag_id), total_len: Some(total as u16), label: vec![], exts: vec![], ptype: Some(0x0800), first_type: None, payload: head.clone(), crc: None }.encode(false);
            let endd = GseEndFragPacket::new((1 + tail.len() + 4) as u16, *frag_id, &tail, 0x1357_9BDF);
            let mut endw = vec![0u8; 1 + tail.len() + 4 + 2];
            if let Err(p) = guard(|| endd.generate(&mut endw)) {
                return st.violation("generate-panic", format!("GseEndFragPacket::generate panicked: {}", p.0));
            }
            let mut mem = SimpleGseMemory::new(1, 0, 0, 0);
            let _ = mem.provision_storage(vec![0u8; total].into_boxed_slice());
            let mut dec = Decapsulator::new(mem, ConstCrc(0x1357_9BDF), TableManager::all());
            let r1 = guard(|| dec.decap(&first));
            let r2 = guard(|| dec.decap(&wire));
            let r3 = guard(|| dec.decap(&endw));
            let mut want = head.clone();
            want.extend_from_slice(&pay);
            want.extend_from_slice(&tail);
            match (&r1, &r2, &r3) {
                (Ok(Ok((DecapStatus::FragmentedPkt(_), _))), Ok(Ok((DecapStatus::FragmentedPkt(_), n2))), Ok(Ok((DecapStatus::CompletedPkt(b, md), _)))) if *n2 == wire.len() && md.pdu_len() == want.len() && b[..want.len()] == want[..] => {}
                _ => return st.violation("decap-differs", format!("first / generate(intermediate) / generate(end) -> {} / {} / {}", show_dec(&r1), show_dec(&r2), show_dec(&r3))),
            }
        }
        Desc::End { frag_id, payload, pos, crc } => {
            st.class("end");
            let pay = payload.bytes();
            nt = !pay.is_empty();
            let gse_len = 1 + pay.len() + 4;
            let d = GseEndFragPacket::new(gse_len as u16, *frag_id, &pay, *crc);
            let wire = gen_parse!(GseEndFragPacket, d, gse_len + 2);
            let r = RefPacket { start: false, end: true, lt: 3, frag_id: Some(*frag_id), total_len: None, label: vec![], exts: vec![], ptype: None, first_type: None, payload: pay.clone(), crc: Some(*crc) }.encode(false);
            if r != wire {
                return st.violation("generate-vs-standard", format!("GseEndFragPacket::generate = {} but the standard layout is {}", hex(&wire), hex(&r)));
            }
            let mut pdu = pdu_bytes(*pos as usize, 5);
            pdu.extend_from_slice(&pay);
            let cx = ContextFrag::new(*frag_id, *crc, *pos);
            let mut b = vec![0u8; gse_len + 2];
            match call_encap_frag(&enc, &pdu, &cx, &mut b) {
                Ok(Ok(EncapStatus::CompletedPkt(n))) if n as usize == gse_len + 2 && b == wire => {}
                o => return st.violation("generate-vs-encap", format!("encap_frag for the same fields: {:?} bytes {} vs generate {}", o.map_err(|p| p.0), hex(&b), hex(&wire))),
            }
            // receiver with a constant CRC calculator accepts exactly this trailer value
            let head = pdu_bytes(4, 8);
            let total = 2 + 3 + head.len() + pay.len();
            let first = RefPacket { start: true, end: false, lt: 1, frag_id: Some(*frag_id), total_len: Some(total as u16), label: vec![1, 2, 3], exts: vec![], ptype: Some(0x0800), first_type: None, payload: head.clone(), crc: None }.encode(false);
            for (k, accept) in [(*crc, true), (crc.wrapping_add(1), false)] {
                let mut mem = SimpleGseMemory::new(1, 0, 0, 0);
                let _ = mem.provision_storage(vec![0u8; total].into_boxed_slice());
                let mut dec = Decapsulator::new(mem, ConstCrc(k), TableManager::all());
                let r1 = guard(|| dec.decap(&first));
                let r2 = guard(|| dec.decap(&wire));
                let mut want = head.clone();
                want.extend_from_slice(&pay);
                let ok = match (&r1, &r2) {
                    (Ok(Ok((DecapStatus::FragmentedPkt(_), _))), Ok(Ok((DecapStatus::CompletedPkt(b, md), n)))) => accept && *n == wire.len() && md.pdu_len() == want.len() && b[..want.len()] == want[..],
                    (Ok(Ok((DecapStatus::FragmentedPkt(_), _))), Ok(Err((dvb_gse_rust::gse_decap::DecapError::ErrorCrc, n)))) => !accept && *n == wire.len(),
                    _ => false,
                };
                if !ok {
                    return st.violation("decap-differs", format!("receiver computing CRC {:#010x}, trailer {:#010x}: first / generate(end) -> {} / {}", k, crc, show_dec(&r1), show_dec(&r2)));
                }
            }
        }
    }
    if nt {
        st.nontrivial(hash_of(c));
    }
    st.sample(|| json!({"description": format!("{:?}", c.d), "slack": c.slack}));
    Ok(())
}

// ---- enumerated: every payload length for every packet kind and label kind ---------------------------------

const PAY: u64 = 4001; // payload lengths 0..=4000

fn sweep_case(i: u64) -> Case {
    let (len, rest) = ((i % PAY) as u32, i / PAY);
    let (labkind, kind) = (rest % 4, rest / 4);
    let lab = match labkind {
        0 => Lab::Six(ALPHA6[0]),
        1 => Lab::Three(ALPHA3[1]), // 00:00:00, legal for a 3-byte label
        2 => Lab::Broadcast,
        _ => Lab::ReUse,
    };
    let payload = Pdu { len, seed: 3 + len };
    let ptype = 0x0600 + ((len as u64 * 7919) % (0x10000 - 0x0600)) as u16;
    let frag_id = (len % 256) as u8;
    let d = match kind {
        0 => Desc::Complete { lab, ptype, payload },
        1 => Desc::First { lab, frag_id, ptype, payload, extra: 4 + (len % 977) as u16 },
        // S=0 packets carry no label: the label dimension varies position / slack instead
        2 => Desc::Inter { frag_id, payload: Pdu { len: len.max(1), seed: 3 + len }, pos: 1 + labkind as u16 * 700, extra: 1 + (len % 13) as u16 },
        _ => Desc::End { frag_id, payload, pos: 1 + labkind as u16 * 700, crc: 0x9E37_79B9u32.wrapping_mul(len + 1) },
    };
    Case { d, slack: (len % 3) as u8 * (labkind as u8 + 1) }
}

fn check_sweep(i: u64, st: &mut Stats) -> Result<(), String> {
    check(&sweep_case(i), st)
}

pub fn property() -> Property {
    Property {
        id: "C20",
        rule: "well-formed descriptions of the four packet kinds (label kinds 6-byte non-zero / 3-byte / broadcast / re-use, frag id, protocol type >= 0x0600, total length, any 32-bit CRC, payload 0..=4000, GSE length computed from the fields). oracle: generate writes exactly gse_len+2 bytes; parse(generate(d)) == d (also with trailing bytes); generate(d) equals the standard layout built by RefCodec and the bytes the encapsulator emits for the same fields (encap with re-use disabled / encap_frag from ContextFrag::new); the decapsulator accepts generate(d) with the same field values (end packets: accepted iff a constant CRC calculator returns exactly the trailer value; intermediates: delivered bytes are the concatenation). non-trivial = payload >= 1 byte",
        assumptions: &["utils::*::parse on malformed input is outside the property"],
        parts: vec![Box::new(EnumPart {
            name: "every-payload-length-x-kind-x-label",
            rule: "every payload length 0..=4000 x {complete, first, intermediate, end} x {6-byte, 3-byte 00:00:00, broadcast, re-use} (S=0 kinds: four positions instead of labels); one content, protocol type, frag id, CRC per length; exhaustive; same oracle",
            size: |_| PAY * 4 * 4,
            exhaustive: |_| true,
            check: check_sweep,
            describe: |_t, i| serde_json::to_value(sweep_case(i)).unwrap_or(Value::Null),
            required_classes: &["complete", "first", "first-compared-with-encap", "intermediate", "end"],
        }), Box::new(GenPart {
            name: "descriptions",
            rule: "see property rule",
            cases: (1_800_000, 30_000_000),
            fuzz_decode: Some(crate::fuzzdec::c20_case),
            strategy,
            check,
            required_classes: &["complete", "first", "first-compared-with-encap", "intermediate", "end", "encapsulator-knew-the-label-before-disable"],
        })],
    }
}
