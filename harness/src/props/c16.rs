//! C16 — the receiver recovers after any history.

use super::c05::{apply_rx_op, mutate, op_packets, rx_op, Mutation, RxOp};
use crate::common::*;
use crate::engine::{bx, hash_of, EnumPart, GenPart, Property, Stats, Tier};
use dvb_gse_rust::gse_decap::{DecapMemoryError, DecapStatus, GseDecapMemory};
use proptest::prelude::*;
use serde::{Deserialize, Serialize};
use serde_json::{json, Value};

#[derive(Clone, Debug, PartialEq, Eq, Hash, Serialize, Deserialize)]
pub enum Pre {
    Op(RxOp),
    Mutated { op: RxOp, muts: Vec<Mutation> },
    /// take every free buffer away (free list drained)
    Drain,
    /// open an unfinished train on every slot
    OpenAllSlots,
}

#[derive(Clone, Debug, PartialEq, Eq, Hash, Serialize, Deserialize)]
pub struct Case {
    pub slots: u8,
    pub pdu_size: u16,
    pub prefix: Vec<Pre>,
    pub probe1_lab: Lab,
    pub probe1_len: u16,
    pub probe2_lab: Lab,
    pub probe2_id: u8,
    pub probe2_len: u16,
    pub probe2_cuts: Vec<u16>,
    /// probe 2's first fragment carries an extension chain that must come back with the PDU
    #[serde(default)]
    pub probe2_ext: bool,
    /// probe 2's first fragment carries a re-use label referring to probe 1's label (when that is a
    /// 3- or 6-byte label): still a valid fragmented PDU, to be delivered with probe 1's label
    #[serde(default)]
    pub probe2_reuse: bool,
}

fn strategy(t: Tier) -> BoxedStrategy<Case> {
    let m = (0u8..6, any::<u16>(), any::<u8>()).prop_map(|(kind, at, val)| Mutation { kind, at, val });
    let pre = prop_oneof![
        8 => rx_op().prop_map(Pre::Op),
        4 => (rx_op(), prop::collection::vec(m, 1..3)).prop_map(|(op, muts)| Pre::Mutated { op, muts }),
        1 => Just(Pre::Drain),
        1 => Just(Pre::OpenAllSlots),
    ];
    bx((
        prop_oneof![5 => 1u8..=4, 1 => Just(0u8)],
        prop_oneof![2 => 1u16..8, 6 => 8u16..200, 1 => 4000u16..9000],
        prop::collection::vec(pre, 0..t.pick(30, 40)),
        lab_addr_or_bcast(),
        any::<u16>(),
        lab_addr_or_bcast(),
        frag_id_any(),
        any::<u16>(),
        (prop::collection::vec(1u16..100, 1..4), any::<bool>(), prop_oneof![3 => Just(false), 1 => Just(true)]),
    )
        .prop_map(|(slots, pdu_size, prefix, probe1_lab, probe1_len, probe2_lab, probe2_id, probe2_len, (probe2_cuts, probe2_ext, probe2_reuse))| Case { slots, pdu_size, prefix, probe1_lab, probe1_len, probe2_lab, probe2_id, probe2_len, probe2_cuts, probe2_ext, probe2_reuse }))
}

fn check(c: &Case, st: &mut Stats) -> Result<(), String> {
    let ps = c.pdu_size as usize;
    let mut d = new_simple_dec(slots_of(c.slots), ps, &[], TableManager::all());
    st.class_if(c.slots == 0, "256-slots");
    let mut quiet = Stats::new(st.tier, vec![]);
    let mut last_was_err = false;
    for p in &c.prefix {
        match p {
            Pre::Op(op) => apply_rx_op(&mut d, op, ps, &mut quiet),
            Pre::Mutated { op, muts } => {
                for mut pkt in op_packets(op) {
                    for m in muts {
                        mutate(&mut pkt, m);
                    }
                    match call_decap(&mut d, &pkt) {
                        Ok(Ok((DecapStatus::CompletedPkt(b, _), _))) => {
                            let _ = d.memory.provision_storage(b);
                            last_was_err = false;
                        }
                        Err(_) => quiet.class("prefix-panic"),
                        Ok(Err(_)) => last_was_err = true,
                        _ => last_was_err = false,
                    }
                }
            }
            Pre::Drain => while d.new_pdu().is_ok() {},
            Pre::OpenAllSlots => {
                for s in (0..slots_of(c.slots)).map(|s| s as u8) {
                    let _ = d.memory.provision_storage(vec![0u8; ps + 1].into_boxed_slice());
                    let pdu = pdu_bytes(ps.max(2), 4);
                    let t = ref_train(Lab::Broadcast, 0x0800, s, &pdu, &[1]);
                    let _ = call_decap(&mut d, &t[0]);
                }
            }
        }
    }
    let prefix_panics = quiet.classes.get("prefix-panic").copied().unwrap_or(0);
    if prefix_panics > 0 {
        st.class_n("prefix-panics(C05)", prefix_panics);
    }
    // what did the prefix leave behind?  (observed through the public trait on a probe copy is not
    // possible without cloning, so classify from the generator's view)
    let left_open = c.prefix.iter().any(|p| matches!(p, Pre::OpenAllSlots | Pre::Op(RxOp::Train { upto: 1..=2, .. })));
    let drained = matches!(c.prefix.last(), Some(Pre::Drain));
    st.class_if(left_open, "prefix-leaves-open-context");
    st.class_if(drained, "prefix-ends-with-empty-free-list");
    st.class_if(last_was_err, "prefix-ends-with-error");
    // ---- recovery protocol, exactly as stated
    d.reset_last_label();
    let provision = |d: &mut SimpleDec, n: usize| -> Result<bool, String> {
        match crate::engine::guard(|| d.provision_storage(vec![0u8; n].into_boxed_slice())) {
            Ok(Ok(())) => Ok(true),
            Ok(Err(DecapMemoryError::StorageOverflow(_))) => Ok(false), // "free list is full"
            Ok(Err(e)) => Err(format!("provisioning a {}-byte buffer (configured size {}) failed with {:?}", n, ps, e)),
            Err(p) => Err(format!("provision_storage panicked: {}", p.0)),
        }
    };
    let full1 = match provision(&mut d, ps + 3) {
        Ok(ok) => !ok,
        Err(m) => return st.violation("recovery-provision", m),
    };
    st.class_if(full1, "free-list-full-at-recovery");
    // probe 1: complete packet, PDU no larger than the configured storage size
    // a complete packet holds at most 4095 - 2 - label bytes
    let l1 = ((c.probe1_len as usize) % (ps + 1)).min(4000);
    let pdu1 = pdu_bytes(l1, 0xAAAA);
    let pkt1 = ref_complete(c.probe1_lab, 0x86DD, &pdu1, &[], false);
    match call_decap(&mut d, &pkt1) {
        Ok(Ok((DecapStatus::CompletedPkt(b, md), n))) if n == pkt1.len() && md.pdu_len() == l1 && b[..l1] == pdu1[..] && md.protocol_type() == 0x86DD && Lab::of(&md.label()) == c.probe1_lab => {}
        o => return st.violation("probe1-not-delivered", format!("slots={} pdu_size={} prefix={:?}: after reset + provisioning, the valid complete packet {} -> {}", c.slots, c.pdu_size, c.prefix, hex(&pkt1), show_dec(&o))),
    }
    if let Err(m) = provision(&mut d, ps + 5) {
        return st.violation("recovery-provision", m);
    }
    // probe 2: fragmented PDU on any frag id
    let l2 = 1 + (c.probe2_len as usize) % ps.max(1);
    let l2 = l2.min(ps).max(1);
    let pdu2 = pdu_bytes(l2, 0xBBBB);
    let cuts: Vec<usize> = c.probe2_cuts.iter().map(|x| (*x as usize).min(l2.saturating_sub(1))).collect();
    let exts2: Vec<ExtSpec> = if c.probe2_ext { vec![ExtSpec { id: 0x0203, data: vec![0xE1, 0xE2] }, ExtSpec { id: 0x0003, data: vec![7, 8] }] } else { vec![] };
    let want_exts: Vec<(u16, Vec<u8>)> = exts2.iter().map(|e| (e.id, e.data.clone())).collect();
    st.class_if(c.probe2_ext, "probe2-with-extensions");
    let reuse2 = c.probe2_reuse && c.probe1_lab.is_addr();
    st.class_if(reuse2, "probe2-re-uses-probe1-label");
    st.class_if(l2 > 4095, "probe2-longer-than-4095");
    let (wire_lab2, want_lab2) = if reuse2 { (Lab::ReUse, c.probe1_lab) } else { (c.probe2_lab, c.probe2_lab) };
    let train = ref_train_ext(wire_lab2, 0x0800, c.probe2_id, &pdu2, &cuts, &exts2);
    for (i, p) in train.iter().enumerate() {
        let r = call_decap(&mut d, p);
        let last = i + 1 == train.len();
        match &r {
            Ok(Ok((DecapStatus::FragmentedPkt(_), n))) if !last && *n == p.len() => {}
            Ok(Ok((DecapStatus::CompletedPkt(b, md), n))) if last && *n == p.len() && md.pdu_len() == l2 && b[..l2] == pdu2[..] && md.protocol_type() == 0x0800 && Lab::of(&md.label()) == want_lab2 && md.extensions().iter().map(super::c13::ext_bytes).collect::<Vec<_>>() == want_exts => {}
            o => return st.violation("probe2-not-delivered", format!("slots={} pdu_size={} prefix={:?}: valid train on frag id {} ({} packets): packet {} {} -> {}", c.slots, c.pdu_size, c.prefix, c.probe2_id, train.len(), i, hex(p), show_dec(o))),
        }
    }
    if left_open || drained || last_was_err || full1 {
        st.nontrivial(hash_of(c));
    }
    st.sample(|| json!({"slots": c.slots, "pdu_size": c.pdu_size, "prefix": c.prefix.iter().map(|p| format!("{:?}", p)).collect::<Vec<_>>(), "probe2_id": c.probe2_id, "probe2_packets": train.len()}));
    Ok(())
}

// ---- every short poisoning history over a fixed alphabet ----------------------------------------------

const N_ALPHA: u64 = 20;

fn enum_alphabet() -> Vec<Pre> {
    let a = Lab::Six(ALPHA6[0]);
    let train = |lab: Lab, id: u8, len: u16, upto: u8| RxOp::Train { lab, id, len, cut: 5, upto };
    vec![
        Pre::Op(RxOp::Provision(0)),
        Pre::Op(RxOp::Provision(2)),
        Pre::Drain,
        Pre::OpenAllSlots,
        Pre::Op(RxOp::Reset),
        Pre::Op(RxOp::Complete { lab: a, len: 10 }),
        Pre::Op(RxOp::Complete { lab: Lab::ReUse, len: 10 }),
        Pre::Op(RxOp::Complete { lab: a, len: 200 }),
        Pre::Op(train(a, 0, 20, 1)),
        Pre::Op(train(a, 0, 20, 2)),
        Pre::Op(train(a, 0, 20, 3)),
        Pre::Op(train(a, 2, 20, 1)),
        Pre::Op(train(Lab::ReUse, 1, 20, 1)),
        Pre::Op(train(a, 0, 200, 1)),
        // whole train with every packet cut in half / with its last byte (CRC, payload) corrupted
        Pre::Mutated { op: train(a, 0, 20, 3), muts: vec![Mutation { kind: 2, at: 0x8000, val: 0 }] },
        Pre::Mutated { op: train(a, 1, 20, 3), muts: vec![Mutation { kind: 1, at: 0xFFFF, val: 3 }] },
        Pre::Op(RxOp::Raw(vec![0xC0])),
        // end / intermediate fragments of frag id 0 out of the blue
        Pre::Op(RxOp::Raw(vec![0x70, 0x08, 0x00, 1, 2, 3, 0xDE, 0xAD, 0xBE, 0xEF])),
        Pre::Op(RxOp::Raw(vec![0x30, 0x04, 0x00, 1, 2, 3])),
        Pre::Mutated { op: RxOp::Complete { lab: a, len: 10 }, muts: vec![Mutation { kind: 5, at: 0x0100, val: 0 }] },
    ]
}

fn enum_depth(t: Tier) -> u32 {
    t.pick(4, 6)
}

fn enum_size(t: Tier) -> u64 {
    6 * (1..=enum_depth(t)).map(|k| N_ALPHA.pow(k)).sum::<u64>()
}

fn enum_case(t: Tier, i: u64) -> Case {
    let alpha = enum_alphabet();
    let probe = i % 6;
    let mut i = i / 6;
    let mut k = 1;
    while k < enum_depth(t) && i >= N_ALPHA.pow(k) {
        i -= N_ALPHA.pow(k);
        k += 1;
    }
    let mut prefix = vec![];
    for _ in 0..k {
        prefix.push(alpha[(i % N_ALPHA) as usize].clone());
        i /= N_ALPHA;
    }
    Case {
        slots: 2,
        pdu_size: 20,
        prefix,
        probe1_lab: Lab::Six(ALPHA6[1]),
        probe1_len: 10,
        probe2_lab: Lab::Three(ALPHA3[0]),
        probe2_id: [0u8, 1, 5][(probe % 3) as usize],
        probe2_len: 17,
        probe2_cuts: vec![4, 6],
        probe2_ext: probe >= 3,
        probe2_reuse: false,
    }
}

fn check_enum(i: u64, st: &mut Stats) -> Result<(), String> {
    check(&enum_case(st.tier, i), st)
}

pub fn property() -> Property {
    Property {
        id: "C16",
        rule: "prefix of 0..30/40 steps over {provisioning (ok, +1, huge, too small), valid complete packets and (un)finished trains with any label incl. re-use and zero, resets, raw bytes, all of these mutated (bit flips, truncation, overwrite, garbage, GSE length), draining the free list, opening an unfinished train on every slot} on memories of 1..4 slots; then the recovery protocol of the statement: reset_last_label, provision one buffer (StorageOverflow accepted as 'free list full'), probe 1 = valid complete packet with a 3/6-byte or broadcast label, provision again, probe 2 = valid fragmented PDU (2..4 fragments) on any frag id. oracle: both probes are delivered byte-exact with their metadata. Panics inside the prefix are counted (C05's subject), the probes are still judged. non-trivial = the prefix left an open context, an empty or full free list, or ended with an error",
        assumptions: &["probe PDUs are no larger than the configured storage size, so any buffer the memory accepted can hold them"],
        parts: vec![Box::new(EnumPart {
            name: "all-short-poisonings",
            rule: "2-slot receiver (storage size 20): every prefix of 1..=4 (thorough 1..=6) steps over 20 (provision exact / huge, drain, open every slot, reset, complete packets valid / re-use / too large, trains on ids 0, 1, 2 left open after 1 or 2 packets or finished, re-use first fragment, oversize first fragment, a train cut in half, a train with a corrupted last byte, 1-byte buffer, stray end and intermediate fragments, a complete packet with a wrong GSE length) x probe 2 on frag id 0 / 1 / 5, with and without extensions; exhaustive for that alphabet and depth; same recovery protocol and oracle",
            size: enum_size,
            exhaustive: |_| true,
            check: check_enum,
            describe: |t, i| serde_json::to_value(enum_case(t, i)).unwrap_or(Value::Null),
            required_classes: &["prefix-leaves-open-context", "prefix-ends-with-empty-free-list", "prefix-ends-with-error", "probe2-with-extensions", "free-list-full-at-recovery"],
        }), Box::new(GenPart {
            name: "poison-then-probe",
            rule: "see property rule",
            cases: (1_200_000, 20_000_000),
            fuzz_decode: Some(crate::fuzzdec::c16_case),
            strategy,
            check,
            required_classes: &["prefix-leaves-open-context", "prefix-ends-with-empty-free-list", "prefix-ends-with-error", "probe2-with-extensions", "probe2-re-uses-probe1-label", "probe2-longer-than-4095", "256-slots"],
        })],
    }
}
