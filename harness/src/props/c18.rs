//! C18 — previews predict exactly what encapsulation will produce.

use super::c09::{alpha_label, apply_prefix, buf_c09, call_label, pdu_c09, prefix, resolve_pos, PrefixOp};
use crate::common::*;
use crate::engine::{bx, guard, hash_of, EnumPart, GenPart, Property, Stats, Tier};
use dvb_gse_rust::gse_encap::{encap_frag_preview, encap_preview, ContextFrag, EncapMetadata, EncapStatus};
use proptest::prelude::*;
use serde::{Deserialize, Serialize};
use serde_json::{json, Value};

#[derive(Clone, Debug, PartialEq, Eq, Hash, Serialize, Deserialize)]
pub enum Call {
    First { pdu: Pdu, lab: Lab, ptype: u16, frag_id: u8, buf: BufSpec },
    Cont { pdu: Pdu, frag_id: u8, crc: u32, pos: u16, pos_mode: u8, buf: BufSpec },
}

#[derive(Clone, Debug, PartialEq, Eq, Hash, Serialize, Deserialize)]
pub struct Case {
    pub prefix: Vec<PrefixOp>,
    pub call: Call,
}

fn strategy(_t: Tier) -> BoxedStrategy<Case> {
    let call = prop_oneof![
        3 => (pdu_c09(), call_label(), ptype_any(), any::<u8>(), buf_c09()).prop_map(|(pdu, lab, ptype, frag_id, buf)| Call::First { pdu, lab, ptype, frag_id, buf }),
        2 => (pdu_c09(), any::<u8>(), any::<u32>(), any::<u16>(), any::<u8>(), prop_oneof![2 => buf_c09(), 1 => (0u32..=12).prop_map(BufSpec::Abs), 1 => (-4i32..=8).prop_map(BufSpec::RemPlus)])
            .prop_map(|(pdu, frag_id, crc, pos, pos_mode, buf)| Call::Cont { pdu, frag_id, crc, pos, pos_mode, buf }),
    ];
    bx((prefix(), call).prop_map(|(prefix, call)| Case { prefix, call }))
}

fn kind_name_of_status(first: bool, s: &EncapStatus) -> &'static str {
    match (first, s) {
        (true, EncapStatus::CompletedPkt(_)) => "CompletePkt",
        (true, EncapStatus::FragmentedPkt(..)) => "FirstFragPkt",
        (false, EncapStatus::FragmentedPkt(..)) => "IntermediateFragPkt",
        (false, EncapStatus::CompletedPkt(_)) => "EndFragPkt",
    }
}

fn kind_name_of_bits(b0: u8) -> &'static str {
    match b0 >> 6 {
        3 => "CompletePkt",
        2 => "FirstFragPkt",
        0 => "IntermediateFragPkt",
        _ => "EndFragPkt",
    }
}

fn check(c: &Case, st: &mut Stats) -> Result<(), String> {
    let mut enc = new_enc();
    if let Err(m) = apply_prefix(&mut enc, &c.prefix) {
        return st.violation("prefix-failed", m);
    }
    let mut nontrivial = false;
    match &c.call {
        Call::First { pdu, lab, ptype, frag_id, buf } => {
            let data = pdu.bytes();
            let blen = buf.first(data.len(), lab.len(), 0);
            let mut b = vec![0u8; blen];
            let desc = format!("(pdu {} bytes, {:?}, ptype {:#06x}, buffer {})", data.len(), lab, ptype, blen);
            // can the re-use policy substitute here?  Not if disabled, not for broadcast/explicit
            // re-use, not when the label memory is known to be empty.
            let mut disabled = false;
            let mut mem_empty = true;
            for op in &c.prefix {
                match op {
                    PrefixOp::Send(i) => mem_empty = !alpha_label(*i).is_addr(),
                    PrefixOp::Reset => mem_empty = true,
                    PrefixOp::Cfg(ReuseCfg::Disabled) => disabled = true,
                    PrefixOp::Cfg(ReuseCfg::Default) => {}
                    PrefixOp::Cfg(_) => disabled = false,
                }
            }
            let may_substitute = lab.is_addr() && !disabled && !mem_empty;
            st.class(if may_substitute { "state-may-substitute" } else { "state-no-substitution" });
            let md = EncapMetadata::new(*ptype, lab.to_label());
            let pv = match guard(|| encap_preview(&data, md, &b)) {
                Ok(r) => r,
                Err(p) => return st.violation(&format!("panic {}", p.site()), format!("encap_preview{} panicked: {}", desc, p.0)),
            };
            let real = match call_encap(&mut enc, &data, *frag_id, *ptype, *lab, &mut b) {
                Ok(r) => r,
                Err(p) => return st.violation(&format!("panic {}", p.site()), format!("encap{} panicked: {}", desc, p.0)),
            };
            if *ptype < 0x0600 || blen > 4097 || (pv.is_err() && real.is_err()) {
                nontrivial = true;
            }
            st.class_if(*ptype < 0x0100, "ptype<0x0100");
            st.class_if((0x100..0x600).contains(ptype), "ptype-rejected-range");
            st.class_if(blen > 4097, "buffer>4097");
            match (&pv, &real) {
                (Err(a), Err(b2)) => {
                    st.class("both-err");
                    if !may_substitute && a != b2 {
                        return st.violation("error-differs", format!("{}: preview Err({:?}), encap Err({:?})", desc, a, b2));
                    }
                }
                (Ok(p), Ok(s)) => {
                    st.class("both-ok");
                    let n = match s {
                        EncapStatus::CompletedPkt(n) | EncapStatus::FragmentedPkt(n, _) => *n,
                    };
                    let substituted = lab.is_addr() && n >= 2 && (b[0] >> 4) & 3 == 3;
                    if substituted {
                        st.class("substituted-not-compared");
                    } else {
                        let kn = kind_name_of_bits(b[0]);
                        if format!("{:?}", p.pkt_type()) != kn || kn != kind_name_of_status(true, s) {
                            return st.violation("kind-differs", format!("{}: preview kind {:?}, encap emitted {} ({:?})", desc, p.pkt_type(), kn, s));
                        }
                        if p.pkt_len() != n {
                            return st.violation("length-differs", format!("{}: preview pkt_len {}, encap returned {}", desc, p.pkt_len(), n));
                        }
                    }
                }
                (a, b2) => {
                    if !may_substitute {
                        return st.violation("ok-err-differs", format!("{}: preview {:?}, encap {:?}", desc, a, b2));
                    }
                    st.class("differs-under-possible-substitution");
                }
            }
            st.sample(|| json!({"call": "encap vs encap_preview", "args": desc, "preview": format!("{:?}", pv), "encap": format!("{:?}", real)}));
        }
        Call::Cont { pdu, frag_id, crc, pos, pos_mode, buf } => {
            let data = pdu.bytes();
            let p = resolve_pos(*pos, *pos_mode, data.len());
            let remaining = data.len().saturating_sub(p as usize);
            let blen = buf.cont(remaining);
            let ctx = ContextFrag::new(*frag_id, *crc, p);
            let mut b = vec![0u8; blen];
            let desc = format!("(pdu {} bytes, ctx pos {}, buffer {})", data.len(), p, blen);
            let pv = match guard(|| encap_frag_preview(&data, &ctx, &b)) {
                Ok(r) => r,
                Err(pn) => return st.violation(&format!("panic {}", pn.site()), format!("encap_frag_preview{} panicked: {}", desc, pn.0)),
            };
            let real = match call_encap_frag(&enc, &data, &ctx, &mut b) {
                Ok(r) => r,
                Err(pn) => return st.violation(&format!("panic {}", pn.site()), format!("encap_frag{} panicked: {}", desc, pn.0)),
            };
            st.class_if(p as usize == data.len(), "ctx-at-end");
            st.class_if(p as usize > data.len(), "ctx-beyond");
            st.class_if(blen > 4097, "buffer>4097");
            if blen > 4097 || p as usize >= data.len() || (pv.is_err() && real.is_err()) {
                nontrivial = true;
            }
            match (&pv, &real) {
                (Err(a), Err(b2)) => {
                    st.class("both-err");
                    if a != b2 {
                        return st.violation("error-differs", format!("{}: preview Err({:?}), encap_frag Err({:?})", desc, a, b2));
                    }
                }
                (Ok(pr), Ok(s)) => {
                    st.class("both-ok");
                    let (n, written) = match s {
                        EncapStatus::CompletedPkt(n) => (*n, remaining),
                        EncapStatus::FragmentedPkt(n, c2) => (*n, (c2.len_pdu_frag() as usize).saturating_sub(p as usize)),
                    };
                    let kn = kind_name_of_bits(b[0]);
                    if format!("{:?}", pr.pkt_type()) != kn || kn != kind_name_of_status(false, s) {
                        return st.violation("kind-differs", format!("{}: preview kind {:?}, encap_frag emitted {} ({:?})", desc, pr.pkt_type(), kn, s));
                    }
                    if pr.pkt_len() != n {
                        return st.violation("length-differs", format!("{}: preview pkt_len {}, encap_frag returned {}", desc, pr.pkt_len(), n));
                    }
                    // payload bytes actually on the wire: packet length minus header(3) (minus crc(4) for end)
                    let on_wire = n as usize - 3 - if matches!(s, EncapStatus::CompletedPkt(_)) { 4 } else { 0 };
                    // (context advance is C11's subject and only meaningful for PDUs <= 65535)
                    let _ = written;
                    if pr.pdu_len() != on_wire {
                        return st.violation("payload-differs", format!("{}: preview pdu_len {}, payload on the wire {}, context advance {}", desc, pr.pdu_len(), on_wire, written));
                    }
                }
                (a, b2) => return st.violation("ok-err-differs", format!("{}: preview {:?}, encap_frag {:?}", desc, a, b2)),
            }
            st.sample(|| json!({"call": "encap_frag vs encap_frag_preview", "args": desc, "preview": format!("{:?}", pv), "encap_frag": format!("{:?}", real)}));
        }
    }
    if nontrivial {
        st.nontrivial(hash_of(c));
    }
    Ok(())
}

// ---- enumerated grids: (remaining, buffer) for continuations, (length, buffer) for first calls -----------

const GRID: u64 = 4201; // 0..=4200

/// continuation: context 5 bytes into a PDU with `r` bytes remaining, buffer `b`
fn cont_case(r: u64, b: u64) -> Case {
    Case { prefix: vec![], call: Call::Cont { pdu: Pdu { len: (r + 5) as u32, seed: 3 + r as u32 }, frag_id: (r % 256) as u8, crc: 0xDEAD_0000 | r as u32, pos: 5, pos_mode: 3, buf: BufSpec::Abs(b as u32) } }
}

const GRID_B: u64 = 4301; // buffers 0..=4300

fn cont_grid(i: u64) -> Case {
    cont_case(i / GRID_B, i % GRID_B)
}

fn check_cont_grid(i: u64, st: &mut Stats) -> Result<(), String> {
    check(&cont_grid(i), st)
}

/// first call: PDU length x {6-byte, 3-byte, broadcast} x buffers 0..=16 and fit-8..=fit+8; fresh encapsulator
fn first_grid(i: u64) -> Case {
    let (len, rest) = (i % GRID, i / GRID);
    let (labkind, k) = (rest % 3, rest / 3);
    let lab = match labkind {
        0 => Lab::Six(ALPHA6[0]),
        1 => Lab::Three(ALPHA3[0]),
        _ => Lab::Broadcast,
    };
    let buf = if k < 17 { BufSpec::Abs(k as u32) } else { BufSpec::FitPlus(k as i32 - 17 - 8) };
    Case { prefix: vec![], call: Call::First { pdu: Pdu { len: len as u32, seed: 3 + len as u32 }, lab, ptype: 0x0600 + ((len * 7919) % (0x10000 - 0x0600)) as u16, frag_id: (len % 256) as u8, buf } }
}

fn check_first_grid(i: u64, st: &mut Stats) -> Result<(), String> {
    check(&first_grid(i), st)
}

pub fn property() -> Property {
    Property {
        id: "C18",
        rule: "prior state + one (PDU 0..=70000, label, protocol type 0..=0xFFFF, buffer 0..=70000) or (PDU, context at any position incl. the end and beyond, buffer); oracle: encap_preview vs encap on the same encapsulator state: equal error, or equal packet kind (S/E bits actually emitted) and pkt_len == returned length — full comparison when no substitution can apply (re-use disabled, empty label memory, broadcast/explicit re-use), otherwise only when encap really wrote the full label; encap_frag_preview vs encap_frag: equal error, or equal kind, pdu_len == payload bytes on the wire == context advance, pkt_len == returned length; a panic on either side is a violation. non-trivial = protocol type < 0x0600, Err on both sides, buffer > 4097, or context at/after the PDU end",
        assumptions: &["previews take only shared references, so 'never modify anything' is enforced by their signatures"],
        parts: vec![
        Box::new(EnumPart {
            name: "continuation-grid",
            rule: "encap_frag_preview vs encap_frag for every pair (remaining length 0..=4200, buffer 0..=4300): 18 M pairs, exhaustive in both tiers",
            size: |_| GRID * GRID_B,
            exhaustive: |_| true,
            check: check_cont_grid,
            describe: |_t, i| serde_json::to_value(cont_grid(i)).unwrap_or(Value::Null),
            required_classes: &["both-ok", "both-err"],
        }),
        Box::new(EnumPart {
            name: "first-call-grid",
            rule: "encap_preview vs encap on a fresh encapsulator for PDU lengths 0..=4200 x {6-byte, 3-byte, broadcast} x buffers 0..=16 and exact-fit-8..=exact-fit+8 (exhaustive)",
            size: |_| GRID * 3 * 34,
            exhaustive: |_| true,
            check: check_first_grid,
            describe: |_t, i| serde_json::to_value(first_grid(i)).unwrap_or(Value::Null),
            required_classes: &["both-ok", "both-err", "state-no-substitution"],
        }),
        Box::new(GenPart {
            name: "preview-vs-real",
            rule: "see property rule",
            cases: (2_000_000, 36_000_000),
            fuzz_decode: Some(crate::fuzzdec::c18_case),
            strategy,
            check,
            required_classes: &["both-ok", "both-err", "ptype<0x0100", "ptype-rejected-range", "buffer>4097", "ctx-at-end", "ctx-beyond", "state-no-substitution", "state-may-substitute"],
        })],
    }
}
