//! C08 — storage buffers are conserved: never leaked, never duplicated.

use super::c05::{mutate, Mutation};
use crate::common::*;
use crate::engine::{bx, hash_of, EnumPart, GenPart, Property, Stats, Tier};
use crate::oracle::refcodec::RefPacket;
use crate::oracle::refcrc;
use dvb_gse_rust::gse_decap::{DecapError, DecapMemoryError, DecapStatus, GseDecapMemory};
use proptest::prelude::*;
use serde::{Deserialize, Serialize};
use serde_json::{json, Value};
use std::collections::HashMap;

#[derive(Clone, Debug, PartialEq, Eq, Hash, Serialize, Deserialize)]
pub enum P {
    /// ext: 0 none, 1 optional ext, 2 known final mandatory, 3 unknown mandatory
    Complete { lab: Lab, len: u16, ext: u8 },
    First { lab: Lab, id: u8, len: u16, cut: u16, ext: u8 },
    /// continue the train last started on `id` with n bytes (end packet with the right CRC when n covers the rest)
    Cont { id: u8, n: u16 },
    /// free-standing intermediate packet with n random bytes
    Inter { id: u8, n: u16 },
    /// end packet for the tracked train: crc_mode 0 right crc, 1 wrong crc; extra = bytes added/removed to break the total length
    End { id: u8, crc_mode: u8, extra: i8 },
    Raw(Vec<u8>),
}

#[derive(Clone, Debug, PartialEq, Eq, Hash, Serialize, Deserialize)]
pub enum Op {
    /// 0: acceptable unique size, 1: too small, 2: huge (70000+)
    Provision(u8),
    Pkt { p: P, muts: Vec<Mutation> },
    Reset,
    NewPdu,
    GiveBack,
}

#[derive(Clone, Debug, PartialEq, Eq, Hash, Serialize, Deserialize)]
pub struct Case {
    pub slots: u8,
    pub pdu_size: u16,
    pub ops: Vec<Op>,
    pub faults: Vec<(MemOp, u8)>,
}

fn pkt() -> impl Strategy<Value = P> {
    let id = frag_id_any().boxed();
    let len = prop_oneof![3 => 0u16..40, 3 => 40u16..200, 1 => 200u16..5000];
    prop_oneof![
        3 => (lab_any(), len.clone(), 0u8..4).prop_map(|(lab, len, ext)| P::Complete { lab, len, ext }),
        4 => (lab_any(), id.clone(), len.clone(), 0u16..200, prop_oneof![4 => Just(0u8), 1 => 1u8..4]).prop_map(|(lab, id, len, cut, ext)| P::First { lab, id, len, cut, ext }),
        5 => (id.clone(), prop_oneof![3 => 1u16..60, 1 => 60u16..5000]).prop_map(|(id, n)| P::Cont { id, n }),
        2 => (id.clone(), 0u16..300).prop_map(|(id, n)| P::Inter { id, n }),
        3 => (id, 0u8..2, -3i8..=3).prop_map(|(id, crc_mode, extra)| P::End { id, crc_mode, extra }),
        1 => prop::collection::vec(any::<u8>(), 0..30).prop_map(P::Raw),
    ]
}

fn strategy(t: Tier) -> BoxedStrategy<Case> {
    let m = (0u8..6, any::<u16>(), any::<u8>()).prop_map(|(kind, at, val)| Mutation { kind, at, val });
    let op = prop_oneof![
        4 => (0u8..3).prop_map(Op::Provision),
        12 => (pkt(), prop_oneof![5 => Just(vec![]), 1 => prop::collection::vec(m, 1..3)]).prop_map(|(p, muts)| Op::Pkt { p, muts }),
        1 => Just(Op::Reset),
        1 => Just(Op::NewPdu),
        2 => Just(Op::GiveBack),
    ];
    let memop = prop_oneof![Just(MemOp::Provision), Just(MemOp::NewPdu), Just(MemOp::NewFrag), Just(MemOp::TakeFrag), Just(MemOp::SaveFrag)];
    let faults = prop_oneof![
        3 => Just(vec![]),
        2 => prop::collection::vec((memop, 1u8..8), 1..3),
    ];
    bx((prop_oneof![5 => 1u8..=4, 1 => Just(0u8)], prop_oneof![Just(0u16), 1u16..50, 50u16..300], prop::collection::vec(op, 1..t.pick(30, 60)), faults)
        .prop_map(|(slots, pdu_size, ops, faults)| Case { slots, pdu_size, ops, faults }))
}

struct Plan {
    pdu: Vec<u8>,
    pos: usize,
    crc: u32,
}

fn ext_for(kind: u8) -> (Vec<ExtSpec>, Option<u16>) {
    match kind {
        1 => (vec![ExtSpec { id: 0x0301, data: vec![1, 2, 3, 4] }], None),
        2 => (vec![ExtSpec { id: 0x0090, data: vec![7, 7] }], Some(0x0090)),
        3 => (vec![ExtSpec { id: 0x0055, data: vec![] }], None), // not in the harness table: unknown mandatory
        _ => (vec![], None),
    }
}

fn build_packet(p: &P, plans: &mut HashMap<u8, Plan>, st: &mut Stats) -> Vec<u8> {
    match p {
        P::Complete { lab, len, ext } => {
            let (exts, fin) = ext_for(*ext);
            st.class_if(*ext == 3, "unknown-mandatory-ext");
            st.class_if(lab.is_zero6(), "zero-label");
            st.class_if(*lab == Lab::ReUse, "sent-re-use-label");
            ref_complete(*lab, fin.unwrap_or(0x0800), &pdu_bytes(*len as usize, 5), &exts, fin.is_some())
        }
        P::First { lab, id, len, cut, ext } => {
            let pdu = pdu_bytes((*len as usize).max(1), 40 + *id as u32);
            let (exts, fin) = ext_for(*ext);
            let ptype = fin.unwrap_or(0x0800);
            let n = (*cut as usize).min(pdu.len() - 1);
            let label = lab.bytes();
            let total_len = (2 + label.len() + pdu.len()) as u16;
            let crc = refcrc::gse_crc(total_len, ptype, &label, &pdu);
            plans.insert(*id, Plan { pdu: pdu.clone(), pos: n, crc });
            st.class_if(*ext == 3, "unknown-mandatory-ext");
            RefPacket {
                start: true,
                end: false,
                lt: lab.lt(),
                frag_id: Some(*id),
                total_len: Some(total_len),
                label,
                exts: exts.iter().map(|e| (e.id, e.data.clone())).collect(),
                ptype: Some(ptype),
                first_type: None,
                payload: pdu[..n].to_vec(),
                crc: None,
            }
            .encode(fin.is_some())
        }
        P::Cont { id, n } => {
            if let Some(pl) = plans.get_mut(id) {
                let rem = pl.pdu.len() - pl.pos;
                if (*n as usize) >= rem {
                    let pk = RefPacket { start: false, end: true, lt: 3, frag_id: Some(*id), total_len: None, label: vec![], exts: vec![], ptype: None, first_type: None, payload: pl.pdu[pl.pos..].to_vec(), crc: Some(pl.crc) }.encode(false);
                    plans.remove(id);
                    pk
                } else {
                    let k = (*n as usize).max(1).min(rem);
                    let pk = RefPacket { start: false, end: false, lt: 3, frag_id: Some(*id), total_len: None, label: vec![], exts: vec![], ptype: None, first_type: None, payload: pl.pdu[pl.pos..pl.pos + k].to_vec(), crc: None }.encode(false);
                    pl.pos += k;
                    pk
                }
            } else {
                RefPacket { start: false, end: false, lt: 3, frag_id: Some(*id), total_len: None, label: vec![], exts: vec![], ptype: None, first_type: None, payload: pdu_bytes((*n as usize).max(1), 3), crc: None }.encode(false)
            }
        }
        P::Inter { id, n } => { st.class("sent-stray-fragment"); RefPacket { start: false, end: false, lt: 3, frag_id: Some(*id), total_len: None, label: vec![], exts: vec![], ptype: None, first_type: None, payload: pdu_bytes(*n as usize, 77), crc: None }.encode(false) }
        P::End { id, crc_mode, extra } => {
            let (mut payload, crc) = match plans.remove(id) {
                Some(pl) => (pl.pdu[pl.pos..].to_vec(), pl.crc),
                None => (vec![1, 2, 3], 0x1234_5678),
            };
            if *extra > 0 {
                payload.extend(vec![0xEE; *extra as usize]);
            } else {
                let cut = (-*extra) as usize;
                payload.truncate(payload.len().saturating_sub(cut));
            }
            st.class_if(*extra != 0, "end-wrong-length");
            st.class_if(*crc_mode == 1, "end-wrong-crc");
            let crc = if *crc_mode == 1 { crc ^ 0x0100_0000 } else { crc };
            RefPacket { start: false, end: true, lt: 3, frag_id: Some(*id), total_len: None, label: vec![], exts: vec![], ptype: None, first_type: None, payload, crc: Some(crc) }.encode(false)
        }
        P::Raw(b) => {
            st.class("sent-raw-bytes");
            b.clone()
        }
    }
}

fn sorted(mut v: Vec<usize>) -> Vec<usize> {
    v.sort();
    v
}

fn check(c: &Case, st: &mut Stats) -> Result<(), String> {
    let mut d = new_ledger_dec(slots_of(c.slots), c.pdu_size as usize, TableManager::all());
    st.class_if(c.slots == 0, "256-slots");
    d.memory.ledger.faults = c.faults.iter().map(|(o, n)| (*o, *n as u32)).collect();
    let mut plans: HashMap<u8, Plan> = HashMap::new();
    let mut held: Vec<Box<[u8]>> = vec![];
    // every buffer the memory ever accepted, by (unique) length
    let mut accepted: Vec<usize> = vec![];
    let mut next_len = c.pdu_size as usize;
    let mut next_huge = 70000usize;
    let mut err_after_take = false;

    macro_rules! bad {
        ($sig:expr, $i:expr, $($arg:tt)*) => {{
            return st.violation($sig, format!("slots={} pdu_size={} faults={:?} at op #{} ({:?}): {}", c.slots, c.pdu_size, c.faults, $i, c.ops[$i], format!($($arg)*)));
        }};
    }

    for (i, op) in c.ops.iter().enumerate() {
        d.memory.ledger.begin_call();
        match op {
            Op::Provision(kind) => {
                let len = match kind {
                    1 => (c.pdu_size as usize).saturating_sub(1 + (i % 3)),
                    2 => {
                        next_huge += 1;
                        next_huge
                    }
                    _ => {
                        next_len += 1;
                        next_len
                    }
                };
                match crate::engine::guard(|| d.provision_storage(vec![0u8; len].into_boxed_slice())) {
                    Ok(Ok(())) => accepted.push(len),
                    Ok(Err(DecapMemoryError::StorageOverflow(b))) | Ok(Err(DecapMemoryError::BufferTooSmall(b))) => {
                        if b.len() != len {
                            bad!("provision-returns-other-buffer", i, "provision of {} bytes refused with a {}-byte buffer", len, b.len());
                        }
                    }
                    Ok(Err(e)) => bad!("provision-error", i, "unexpected provisioning error {:?}", e),
                    Err(p) => bad!(&format!("panic {}", p.site()), i, "provision_storage panicked: {}", p.0),
                }
            }
            Op::GiveBack => {
                if let Some(b) = held.pop() {
                    let len = b.len();
                    match crate::engine::guard(|| d.provision_storage(b)) {
                        Ok(Ok(())) => {}
                        Ok(Err(DecapMemoryError::StorageOverflow(b))) | Ok(Err(DecapMemoryError::BufferTooSmall(b))) => {
                            if b.len() != len {
                                bad!("provision-returns-other-buffer", i, "give-back of {} bytes refused with a {}-byte buffer", len, b.len());
                            }
                            held.push(b);
                        }
                        Ok(Err(e)) => bad!("provision-error", i, "unexpected provisioning error {:?}", e),
                        Err(p) => bad!(&format!("panic {}", p.site()), i, "provision_storage panicked: {}", p.0),
                    }
                }
            }
            Op::NewPdu => match crate::engine::guard(|| d.new_pdu()) {
                Ok(Ok(b)) => held.push(b),
                Ok(Err(_)) => {}
                Err(p) => bad!(&format!("panic {}", p.site()), i, "new_pdu panicked: {}", p.0),
            },
            Op::Reset => d.reset_last_label(),
            Op::Pkt { p, muts } => {
                let mut bytes = build_packet(p, &mut plans, st);
                for m in muts {
                    mutate(&mut bytes, m);
                }
                let r = call_decap(&mut d, &bytes);
                let mut returned: Vec<usize> = vec![];
                match r {
                    Err(pn) => bad!(&format!("panic {}", pn.site()), i, "decap({}) panicked: {} — whatever the call held is destroyed by unwinding", hex(&bytes), pn.0),
                    Ok(Ok((DecapStatus::CompletedPkt(b, _), _))) => {
                        st.class("delivered");
                        returned.push(b.len());
                        held.push(b);
                    }
                    Ok(Ok(_)) => {}
                    Ok(Err((e, _))) => {
                        st.class(match &e {
                            DecapError::ErrorCrc => "rej-crc",
                            DecapError::ErrorTotalLength => "rej-total-length",
                            DecapError::ErrorSizePduBuffer => "rej-oversize",
                            DecapError::ErrorUnkownMandatoryHeader => "rej-unknown-mandatory",
                            DecapError::ErrorInvalidLabel => "rej-zero-label",
                            DecapError::ErrorNoLabelSaved | DecapError::ErrorLabelBroadcastSaved | DecapError::ErrorLabelReUseSaved => "rej-reuse-unresolvable",
                            DecapError::ErrorMemory(DecapMemoryError::UndefinedId) => "rej-undefined-id",
                            DecapError::ErrorMemory(DecapMemoryError::StorageUnderflow) => "rej-no-storage",
                            DecapError::ErrorMemory(_) => "rej-memory-other",
                            _ => "rej-malformed",
                        });
                        if d.memory.ledger.took_in_call > 0 {
                            err_after_take = true;
                            st.class("error-after-taking-a-buffer");
                        }
                        if let DecapError::ErrorMemory(DecapMemoryError::StorageOverflow(b)) | DecapError::ErrorMemory(DecapMemoryError::BufferTooSmall(b)) = e {
                            st.class("buffer-returned-in-error");
                            returned.push(b.len());
                            held.push(b);
                            err_after_take = true;
                        }
                    }
                }
                // everything that left the memory during the call and did not go back must be in the result
                let out = sorted(d.memory.ledger.out_in_call.clone());
                let ret = sorted(returned.clone());
                if out != ret {
                    let leaked: Vec<_> = out.iter().filter(|l| !ret.contains(l)).collect();
                    if !leaked.is_empty() {
                        bad!("leak", i, "decap({}) took buffer(s) {:?} out of the memory and neither put them back nor returned them", hex(&bytes), leaked);
                    }
                    bad!("dup", i, "decap({}) returned buffer(s) {:?} but the memory handed out {:?}", hex(&bytes), ret, out);
                }
            }
        }
        // global conservation: accepted == inside (+) held-and-accepted
        let mut total = d.memory.ledger.inside.clone();
        for b in &held {
            if accepted.contains(&b.len()) {
                total.push(b.len());
            }
        }
        if sorted(total.clone()) != sorted(accepted.clone()) {
            bad!("conservation", i, "buffers accepted {:?} but inside-the-memory + caller-held = {:?}", sorted(accepted.clone()), sorted(total));
        }
    }
    // was there an error after a take (ledger saw traffic in a failing call)?  approximate through classes:
    // drain the inner memory through the public trait, bypassing the fault plan
    let injected = d.memory.ledger.injected;
    let quarantined: Vec<usize> = d.memory.ledger.quarantine.iter().map(|b| b.len()).collect();
    let mut want = d.memory.ledger.inside.clone();
    for q in &quarantined {
        if let Some(p) = want.iter().position(|x| x == q) {
            want.swap_remove(p);
        }
    }
    let mut got = vec![];
    for id in 0..=255u8 {
        if let Ok(Ok((_, b))) = crate::engine::guard(|| d.memory.inner.take_frag(id)) {
            got.push(b.len());
        }
    }
    loop {
        match crate::engine::guard(|| d.memory.inner.new_pdu()) {
            Ok(Ok(b)) => got.push(b.len()),
            _ => break,
        }
        if got.len() > 100_000 {
            break;
        }
    }
    if sorted(got.clone()) != sorted(want.clone()) {
        return st.violation(
            "drain",
            format!("slots={} pdu_size={} faults={:?} ops={:?}: final drain recovered {:?}, boundary ledger says the memory holds {:?}", c.slots, c.pdu_size, c.faults, c.ops, sorted(got), sorted(want)),
        );
    }
    st.class_if(injected > 0, "fault-injected");
    if injected > 0 || err_after_take {
        st.nontrivial(hash_of(c));
    }
    st.sample(|| json!({"slots": c.slots, "pdu_size": c.pdu_size, "faults": format!("{:?}", c.faults), "ops": c.ops.iter().map(|o| format!("{:?}", o)).collect::<Vec<_>>()}));
    Ok(())
}

// ---- conservation across very long trains into storages above 65535 bytes ----------------------

fn check_huge(c: &super::c05::HugeCase, st: &mut Stats) -> Result<(), String> {
    let (pk, carried) = super::c05::huge_frame(c);
    let mut d = new_ledger_dec(1, 0, TableManager::all());
    let lens = [c.storage as usize, c.storage as usize + 1];
    for l in lens {
        let _ = d.provision_storage(vec![0u8; l].into_boxed_slice());
    }
    let mut held: Vec<usize> = vec![];
    for (i, p) in pk.iter().enumerate() {
        d.memory.ledger.begin_call();
        let r = call_decap(&mut d, p);
        let mut returned = vec![];
        match &r {
            Err(pn) => return st.violation(&format!("panic {}", pn.site()), format!("huge storage {}: decap of packet {}/{} panicked: {}", c.storage, i + 1, pk.len(), pn.0)),
            Ok(Ok((DecapStatus::CompletedPkt(b, _), _))) => returned.push(b.len()),
            Ok(Err((DecapError::ErrorMemory(DecapMemoryError::StorageOverflow(b)), _))) | Ok(Err((DecapError::ErrorMemory(DecapMemoryError::BufferTooSmall(b)), _))) => returned.push(b.len()),
            _ => {}
        }
        let out = sorted(d.memory.ledger.out_in_call.clone());
        if out != sorted(returned.clone()) {
            return st.violation("leak", format!("storage {} bytes, packet {}/{} ({} bytes carried so far of {}): decap -> {}; buffers taken out {:?}, returned {:?}", c.storage, i + 1, pk.len(), carried, carried, show_dec(&r), out, returned));
        }
        held.extend(returned);
        st.class_if(matches!(r, Ok(Err(_))) && d.memory.ledger.took_in_call > 0, "error-after-taking-a-buffer");
    }
    let mut got = vec![];
    if let Ok(Ok((_, b))) = crate::engine::guard(|| d.memory.inner.take_frag(5)) {
        got.push(b.len());
    }
    while let Ok(Ok(b)) = crate::engine::guard(|| d.memory.inner.new_pdu()) {
        got.push(b.len());
    }
    got.extend(held);
    if sorted(got.clone()) != sorted(lens.to_vec()) {
        return st.violation("drain", format!("storage {} bytes, {} fragments: provisioned {:?}, recovered {:?}", c.storage, pk.len(), lens, sorted(got)));
    }
    st.class_if(carried > 65535, "carried>65535");
    if carried > 65535 {
        st.nontrivial(hash_of(c));
    }
    st.sample(|| json!({"storage": c.storage, "fragments": pk.len(), "bytes_carried": carried}));
    Ok(())
}

// ---- every short history over a fixed alphabet --------------------------------------------------------

const N_ALPHA: u64 = 24;

fn enum_alphabet() -> Vec<Op> {
    let a = Lab::Six(ALPHA6[0]);
    let pk = |p: P| Op::Pkt { p, muts: vec![] };
    vec![
        Op::Provision(0),
        Op::Provision(1),
        Op::NewPdu,
        Op::GiveBack,
        Op::Reset,
        pk(P::Complete { lab: a, len: 10, ext: 0 }),
        pk(P::Complete { lab: Lab::ReUse, len: 10, ext: 0 }),
        pk(P::Complete { lab: a, len: 10, ext: 3 }),
        pk(P::Complete { lab: Lab::Six([0; 6]), len: 10, ext: 0 }),
        pk(P::Complete { lab: a, len: 300, ext: 0 }),
        pk(P::First { lab: a, id: 0, len: 30, cut: 10, ext: 0 }),
        pk(P::First { lab: Lab::Three(ALPHA3[0]), id: 1, len: 30, cut: 10, ext: 0 }),
        pk(P::First { lab: a, id: 2, len: 30, cut: 10, ext: 1 }),
        pk(P::First { lab: Lab::ReUse, id: 0, len: 30, cut: 10, ext: 0 }),
        pk(P::First { lab: a, id: 0, len: 30, cut: 10, ext: 3 }),
        pk(P::First { lab: a, id: 1, len: 300, cut: 100, ext: 0 }),
        pk(P::Cont { id: 0, n: 5 }),
        pk(P::Cont { id: 0, n: 1000 }),
        pk(P::Cont { id: 1, n: 1000 }),
        pk(P::End { id: 0, crc_mode: 1, extra: 0 }),
        pk(P::End { id: 0, crc_mode: 0, extra: 1 }),
        pk(P::Inter { id: 5, n: 10 }),
        pk(P::Raw(vec![0xC0])),
        pk(P::Raw(vec![0xE0, 0x20, 0x08])),
    ]
}

fn enum_depth(t: Tier) -> u32 {
    t.pick(4, 6)
}

fn enum_size(t: Tier) -> u64 {
    2 * (1..=enum_depth(t)).map(|k| N_ALPHA.pow(k)).sum::<u64>()
}

/// two receiver shapes (2 slots: ids 0 and 2 collide; 3 slots), two buffers provisioned, then every
/// sequence of 1..=depth operations of the alphabet
fn enum_case(t: Tier, i: u64) -> Case {
    let alpha = enum_alphabet();
    let shape = i % 2;
    let mut i = i / 2;
    let mut k = 1;
    while k < enum_depth(t) && i >= N_ALPHA.pow(k) {
        i -= N_ALPHA.pow(k);
        k += 1;
    }
    let mut ops = vec![Op::Provision(0), Op::Provision(0)];
    for _ in 0..k {
        ops.push(alpha[(i % N_ALPHA) as usize].clone());
        i /= N_ALPHA;
    }
    Case { slots: if shape == 0 { 2 } else { 3 }, pdu_size: 40, ops, faults: vec![] }
}

fn check_enum(i: u64, st: &mut Stats) -> Result<(), String> {
    check(&enum_case(st.tier, i), st)
}

pub fn property() -> Property {
    Property {
        id: "C08",
        rule: "histories of 1..30 (quick) / 1..60 (thorough) operations over {provision (ok / too small / huge), decap of valid complete / first / continuing / stray intermediate / end packets with right or wrong CRC and length, unknown mandatory extensions, zero and unresolvable re-use labels, raw bytes, all optionally mutated; reset; new_pdu; give a held buffer back} on a decapsulator whose memory is wrapped by a ledger recording every buffer crossing the GseDecapMemory boundary, optionally with 1..2 injected failures of the n-th provision/new_pdu/new_frag/take_frag/save_frag. oracle after every call: buffers taken out during the call and not put back == buffers in the call's result (CompletedPkt or error value); accepted == inside + caller-held; at the end the inner memory is drained through the trait and must hold exactly what the ledger says. non-trivial = a fault was injected or a decap returned an error carrying a buffer / after taking a buffer",
        assumptions: &[
            "buffer identity = its unique length (the crate cannot resize a Box<[u8]>)",
            "an injected save_frag failure keeps the buffer in a quarantine list that counts as inside the memory (the trait error carries no buffer)",
        ],
        parts: vec![Box::new(EnumPart {
            name: "ledger-all-short-histories",
            rule: "receivers of 2 and 3 slots with two storages of 41 and 42 bytes, then every sequence of 1..=4 (thorough 1..=6) operations over 24: provision ok / too small, new_pdu, give back, reset, complete packets (valid, re-use, unknown mandatory extension, zero label, too large for any storage), first fragments (ids 0, 1, 2 incl. a slot collision, re-use label, with extension, unknown mandatory, announcing more than any storage), continuation by 5 bytes / to the end on ids 0 and 1, end with wrong CRC, end with wrong length, stray intermediate, 1-byte and truncated buffers. exhaustive for that alphabet and depth; same ledger oracle",
            size: enum_size,
            exhaustive: |_| true,
            check: check_enum,
            describe: |t, i| serde_json::to_value(enum_case(t, i)).unwrap_or(Value::Null),
            required_classes: &["delivered", "end-wrong-crc", "end-wrong-length", "unknown-mandatory-ext", "zero-label", "sent-re-use-label", "sent-raw-bytes", "sent-stray-fragment", "error-after-taking-a-buffer"],
        }), Box::new(GenPart {
            name: "long-trains-huge-storage",
            rule: "first + 10..40 intermediates of 3000..4094 bytes + end into storages of 65000..140000 bytes under the ledger (accumulated length beyond 16 bits): conservation after every call and at the final drain",
            cases: (12_000, 300_000),
            fuzz_decode: None,
            strategy: super::c05::huge_strategy,
            check: check_huge,
            required_classes: &["carried>65535", "error-after-taking-a-buffer"],
        }), Box::new(GenPart {
            name: "ledger-histories",
            rule: "see property rule",
            cases: (1_200_000, 24_000_000),
            fuzz_decode: Some(crate::fuzzdec::c08_case),
            strategy,
            check,
            required_classes: &[
                // generator health is judged by what the harness SENT (implementation-agnostic), the rej-* classes
                // keyed by the crate's error kinds are reported for information only
                "delivered", "end-wrong-crc", "end-wrong-length", "unknown-mandatory-ext", "zero-label", "sent-re-use-label", "sent-raw-bytes",
                "sent-stray-fragment", "fault-injected", "error-after-taking-a-buffer",
            ],
        })],
    }
}
