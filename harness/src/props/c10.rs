//! C10 — back-to-back packets and padding in a frame are walked by consumed lengths.

use super::c13::ext_bytes;
use crate::common::*;
use crate::engine::{bx, hash_of, EnumPart, GenPart, Property, Stats, Tier};
use dvb_gse_rust::gse_decap::{DecapError, DecapMemoryError, DecapStatus, GseDecapMemory};
use dvb_gse_rust::gse_encap::{ContextFrag, EncapStatus};
use proptest::prelude::*;
use serde::{Deserialize, Serialize};
use serde_json::{json, Value};

#[derive(Clone, Debug, PartialEq, Eq, Hash, Serialize, Deserialize)]
pub enum Item {
    /// kind: 0 plain, 1 optional extension, 2 signalling protocol type 0x0081/0x0082 written by encap,
    /// 3 final mandatory extension via encap_ext, 4 mandatory extension unknown to every receiver
    Complete { lab: Lab, len: u16, kind: u8 },
    Start { id: u8, lab: Lab, len: u16, first_payload: u8, ext: bool },
    /// continue open train k; buffer = 7 + n; corrupt: flip a trailer bit if this turns out to be the end packet
    Cont { k: u16, n: u16, corrupt: bool },
    /// intermediate (end=false) or end packet of a train whose first fragment the receivers never see
    Orphan { id: u8, end: bool },
}

#[derive(Clone, Debug, PartialEq, Eq, Hash, Serialize, Deserialize)]
pub struct Case {
    pub reuse: ReuseCfg,
    pub storage: u16,
    pub free_bufs: u8,
    pub know_mand: bool,
    /// (start a new frame before this item, item)
    pub items: Vec<(bool, Item)>,
    pub pad: u8,
    /// Some: only the first packet is compared, followed by these bytes
    pub garbage: Option<Vec<u8>>,
}

fn strategy(t: Tier) -> BoxedStrategy<Case> {
    let len = prop_oneof![2 => 0u16..3, 4 => 3u16..60, 2 => 60u16..400];
    let item = prop_oneof![
        5 => (lab_any_valid(), len.clone(), prop_oneof![4 => Just(0u8), 2 => Just(1u8), 2 => Just(2u8), 1 => Just(3u8), 1 => Just(4u8)]).prop_map(|(lab, len, kind)| Item::Complete { lab, len, kind }),
        3 => (0u8..6, lab_any_valid(), prop_oneof![2 => Just(0u16), 5 => 4u16..400, 1 => 4000u16..9000], 0u8..40, any::<bool>()).prop_map(|(id, lab, len, first_payload, ext)| Item::Start { id, lab, len, first_payload, ext }),
        5 => (any::<u16>(), prop_oneof![4 => 0u16..30, 2 => 30u16..500, 1 => 4070u16..4110, 1 => 500u16..6000], prop_oneof![6 => Just(false), 1 => Just(true)]).prop_map(|(k, n, corrupt)| Item::Cont { k, n, corrupt }),
        1 => (0u8..6, any::<bool>()).prop_map(|(id, end)| Item::Orphan { id, end }),
    ];
    bx((
        reuse_cfg(),
        prop_oneof![3 => Just(10000u16), 1 => 0u16..100],
        prop_oneof![4 => Just(4u8), 1 => 0u8..4],
        prop_oneof![3 => Just(true), 1 => Just(false)],
        prop::collection::vec((prop_oneof![5 => Just(false), 1 => Just(true)], item), 1..t.pick(12, 24)),
        0u8..40,
        prop_oneof![4 => Just(None), 1 => prop::collection::vec(any::<u8>(), 1..40).prop_map(Some)],
    )
        .prop_map(|(reuse, storage, free_bufs, know_mand, items, pad, garbage)| Case { reuse, storage, free_bufs, know_mand, items, pad, garbage }))
}

#[derive(Clone, Debug, PartialEq, Eq)]
enum Outcome {
    Completed { pdu: Vec<u8>, ptype: u16, label: Lab, exts: Vec<(u16, Vec<u8>)> },
    Fragmented { ptype: u16, label: Lab },
    Padding,
    Err(String),
    Panic(String),
}

fn outcome_of(r: &DecRes) -> (Outcome, usize) {
    match r {
        Err(p) => (Outcome::Panic(p.0.clone()), 0),
        Ok(Ok((DecapStatus::CompletedPkt(b, md), n))) => (
            Outcome::Completed { pdu: b[..md.pdu_len().min(b.len())].to_vec(), ptype: md.protocol_type(), label: Lab::of(&md.label()), exts: md.extensions().iter().map(ext_bytes).collect() },
            *n,
        ),
        Ok(Ok((DecapStatus::FragmentedPkt(md), n))) => (Outcome::Fragmented { ptype: md.protocol_type(), label: Lab::of(&md.label()) }, *n),
        Ok(Ok((DecapStatus::Padding, n))) => (Outcome::Padding, *n),
        Ok(Err((e, n))) => (
            Outcome::Err(match e {
                DecapError::ErrorMemory(DecapMemoryError::StorageOverflow(_)) => "ErrorMemory(StorageOverflow)".into(),
                DecapError::ErrorMemory(DecapMemoryError::BufferTooSmall(_)) => "ErrorMemory(BufferTooSmall)".into(),
                o => format!("{:?}", o),
            }),
            *n,
        ),
    }
}

fn give_back(d: &mut SimpleDec, r: DecRes) {
    if let Ok(Ok((DecapStatus::CompletedPkt(b, _), _))) = r {
        let _ = d.memory.provision_storage(b);
    }
}

struct Open {
    pdu: Vec<u8>,
    ctx: ContextFrag,
    id: u8,
}

fn check(c: &Case, st: &mut Stats) -> Result<(), String> {
    // ---- produce the packets with the real encapsulator
    let mut enc = new_enc();
    apply_reuse(&mut enc, c.reuse);
    let mut frames: Vec<Vec<Vec<u8>>> = vec![vec![]];
    let mut open: Vec<Open> = vec![];
    let mut ext_followed = false;
    for (brk, it) in &c.items {
        if *brk && !frames.last().unwrap().is_empty() {
            frames.push(vec![]);
            enc.reset_last_label();
        }
        let mut emit = |p: Vec<u8>| frames.last_mut().unwrap().push(p);
        match it {
            Item::Complete { lab, len, kind } => {
                let pdu = pdu_bytes(*len as usize, 21);
                let mut b = vec![0u8; 600];
                let r = match kind {
                    1 => call_encap_ext(&mut enc, &pdu, 0, 0x0800, *lab, &mut b, vec![ExtSpec { id: 0x0412, data: vec![1, 2, 3, 4, 5, 6] }.build()?]),
                    2 => call_encap(&mut enc, &pdu, 0, if len % 2 == 0 { 0x0081 } else { 0x0082 }, *lab, &mut b),
                    3 => call_encap_ext(&mut enc, &pdu, 0, 0x0090, *lab, &mut b, vec![ExtSpec { id: 0x0090, data: vec![5, 6] }.build()?]),
                    4 => call_encap_ext(&mut enc, &pdu, 0, 0x0800, *lab, &mut b, vec![ExtSpec { id: 0x0066, data: vec![] }.build()?]),
                    _ => call_encap(&mut enc, &pdu, 0, 0x0800, *lab, &mut b),
                };
                match r {
                    Ok(Ok(EncapStatus::CompletedPkt(n))) => emit(b[..n as usize].to_vec()),
                    o => return st.violation("send-failed", format!("complete packet not produced: {:?}", o.map_err(|p| p.0))),
                }
                st.class_if(*kind == 2 || *kind == 3, "signalling/final-mandatory");
                st.class_if(*len <= 2, "pdu<=2-bytes");
            }
            Item::Start { id, lab, len, first_payload, ext } => {
                let pdu = pdu_bytes((*len as usize).max(*first_payload as usize + 4), 22 + *id as u32);
                // extension area: 8 + 2 + 4 + 2 = 16 bytes, so that it can exceed what remains of the PDU
                let mut b = vec![0u8; 7 + lab.len() + if *ext { 16 } else { 0 } + *first_payload as usize];
                let r = if *ext {
                    call_encap_ext(&mut enc, &pdu, *id, 0x0800, *lab, &mut b, vec![ExtSpec { id: 0x0507, data: vec![7; 8] }.build()?, ExtSpec { id: 0x0301, data: vec![1, 2, 3, 4] }.build()?])
                } else {
                    call_encap(&mut enc, &pdu, *id, 0x0800, *lab, &mut b)
                };
                match r {
                    Ok(Ok(EncapStatus::FragmentedPkt(n, ctx))) => {
                        emit(b[..n as usize].to_vec());
                        open.retain(|o| o.id != *id);
                        open.push(Open { pdu, ctx, id: *id });
                    }
                    Ok(Ok(EncapStatus::CompletedPkt(n))) => emit(b[..n as usize].to_vec()),
                    o => return st.violation("send-failed", format!("first fragment not produced: {:?}", o.map_err(|p| p.0))),
                }
            }
            Item::Cont { k, n, corrupt } => {
                if open.is_empty() {
                    continue;
                }
                let j = idx16(*k, open.len());
                let mut b = vec![0u8; 7 + *n as usize];
                match call_encap_frag(&enc, &open[j].pdu, &open[j].ctx, &mut b) {
                    Ok(Ok(EncapStatus::FragmentedPkt(len, cx))) => {
                        open[j].ctx = cx;
                        emit(b[..len as usize].to_vec());
                    }
                    Ok(Ok(EncapStatus::CompletedPkt(len))) => {
                        let mut p = b[..len as usize].to_vec();
                        if *corrupt {
                            let l = p.len();
                            p[l - 2] ^= 0x10;
                            st.class("end-with-bad-crc");
                        }
                        open.remove(j);
                        emit(p);
                    }
                    o => return st.violation("send-failed", format!("continuation not produced: {:?}", o.map_err(|p| p.0))),
                }
            }
            Item::Orphan { id, end } => {
                let mut e2 = new_enc();
                let pdu = pdu_bytes(20, 77);
                match send_pdu(&mut e2, &pdu, *id, 0x0800, Lab::Broadcast, &[], 12, if *end { 40 } else { 10 }) {
                    Ok(p) if p.len() >= 2 => {
                        st.class("orphan-fragment");
                        emit(p[1].clone())
                    }
                    o => return st.violation("send-failed", format!("orphan train not produced: {:?}", o.map(|p| p.len()))),
                }
            }
        }
    }
    // the encapsulator never emits a packet that reads as padding
    for f in &frames {
        for p in f {
            if p.is_empty() || p[0] & 0xF0 == 0 {
                return st.violation("emitted-packet-reads-as-padding", format!("emitted packet {} starts with a zero nibble", hex(p)));
            }
        }
    }
    // ---- two identically prepared receivers
    let mask = if c.know_mand { u32::MAX } else { 0 };
    let bufs = vec![c.storage as usize; c.free_bufs as usize];
    let mut a = new_simple_dec(4, 0, &bufs, TableManager { mask });
    let mut b = new_simple_dec(4, 0, &bufs, TableManager { mask });
    let mut nontrivial = false;
    st.class_if(c.free_bufs == 0, "receiver-without-storage");
    st.class_if(c.storage < 100, "receiver-storage-too-small");
    st.class_if(!c.know_mand, "receiver-knows-no-mandatory-id");
    st.class_if(c.items.iter().enumerate().any(|(i, (brk, it))| (i == 0 || *brk) && matches!(it, Item::Complete { lab: Lab::ReUse, .. } | Item::Start { lab: Lab::ReUse, .. })), "explicit-re-use-at-frame-start");
    if let Some(g) = &c.garbage {
        // outcome of a packet must not depend on what follows it
        st.class("garbage-after-first-packet");
        if let Some(p0) = frames[0].first() {
            let mut framed = p0.clone();
            framed.extend_from_slice(g);
            let ra = call_decap(&mut a, &framed);
            let rb = call_decap(&mut b, p0);
            let (oa, na) = outcome_of(&ra);
            let (ob, nb) = outcome_of(&rb);
            if matches!(oa, Outcome::Panic(_)) || matches!(ob, Outcome::Panic(_)) {
                return st.violation("panic", format!("decap panicked: {:?} / {:?}", oa, ob));
            }
            if oa != ob || na != nb || nb != p0.len() {
                return st.violation("outcome-depends-on-following-bytes", format!("packet {} alone -> {:?} (consumed {}), followed by {} -> {:?} (consumed {})", hex(p0), ob, nb, hex(g), oa, na));
            }
            st.nontrivial(hash_of(c));
        }
        return Ok(());
    }
    for (fi, f) in frames.iter().enumerate() {
        a.reset_last_label();
        b.reset_last_label();
        let mut frame: Vec<u8> = f.concat();
        frame.extend(vec![0u8; c.pad as usize]);
        // twin B: each packet alone
        let mut expect: Vec<(Outcome, usize)> = vec![];
        for p in f {
            let r = call_decap(&mut b, p);
            expect.push(outcome_of(&r));
            give_back(&mut b, r);
        }
        // walker A
        let mut off = 0usize;
        let mut seen_reject_then_accept = false;
        let mut had_reject = false;
        for (pi, p) in f.iter().enumerate() {
            if off >= frame.len() {
                return st.violation("walker-ran-out", format!("frame {}: walker reached the end of the frame before packet {}", fi, pi));
            }
            let r = call_decap(&mut a, &frame[off..]);
            let (oa, na) = outcome_of(&r);
            give_back(&mut a, r);
            if let Outcome::Panic(m) = &oa {
                return st.violation("panic", format!("frame {} packet {}: decap panicked: {}", fi, pi, m));
            }
            let (ob, nb) = &expect[pi];
            if &oa != ob {
                return st.violation("outcome-differs-in-frame", format!("frame {} packet {} ({}): alone -> {:?}, inside the frame (followed by {} bytes) -> {:?}", fi, pi, hex(p), ob, frame.len() - off - p.len(), oa));
            }
            if na != p.len() || *nb != p.len() {
                return st.violation("consumed-not-packet-length", format!("frame {} packet {} ({}, {} bytes): consumed {} inside the frame, {} alone; outcome {:?}", fi, pi, hex(p), p.len(), na, nb, oa));
            }
            match &oa {
                Outcome::Err(_) => had_reject = true,
                Outcome::Completed { exts, .. } => {
                    if had_reject {
                        seen_reject_then_accept = true;
                    }
                    if !exts.is_empty() && off + p.len() < frame.len() {
                        ext_followed = true;
                    }
                }
                _ => {}
            }
            st.class(match &oa {
                Outcome::Completed { .. } => "completed",
                Outcome::Fragmented { .. } => "fragmented",
                Outcome::Err(e) if e.contains("ErrorCrc") => "rej-crc",
                Outcome::Err(e) if e.contains("UndefinedId") => "rej-unknown-frag-id",
                Outcome::Err(e) if e.contains("StorageUnderflow") => "rej-no-storage",
                Outcome::Err(e) if e.contains("ErrorSizePduBuffer") => "rej-oversize",
                Outcome::Err(e) if e.contains("ErrorUnkownMandatoryHeader") => "rej-unknown-mandatory",
                Outcome::Err(e) if e.contains("Label") => "rej-unresolvable-reuse",
                _ => "other",
            });
            off += na;
        }
        let rest = frame.len() - off;
        if rest >= 2 {
            st.class("padding");
            let r = call_decap(&mut a, &frame[off..]);
            match outcome_of(&r) {
                (Outcome::Padding, n) if n == rest => {}
                (o, n) => return st.violation("padding", format!("frame {}: after the last packet {} zero bytes remain: decap -> {:?} consuming {}", fi, rest, o, n)),
            }
        }
        if f.len() >= 3 && (seen_reject_then_accept || ext_followed || rest >= 2) {
            nontrivial = true;
        }
    }
    if nontrivial {
        st.nontrivial(hash_of(c));
    }
    st.sample(|| json!({"frames": frames.iter().map(|f| f.iter().map(|p| p.len()).collect::<Vec<_>>()).collect::<Vec<_>>(), "pad": c.pad, "storage": c.storage, "free_bufs": c.free_bufs, "know_mand": c.know_mand}));
    Ok(())
}

// ---- every short frame over a fixed packet alphabet ----------------------------------------------------

const N_ALPHA: u64 = 16;
const PADS: [u8; 5] = [0, 1, 2, 3, 9];

fn enum_alphabet() -> Vec<Item> {
    let a = Lab::Six(ALPHA6[0]);
    vec![
        Item::Complete { lab: a, len: 5, kind: 0 },
        Item::Complete { lab: a, len: 0, kind: 0 },
        Item::Complete { lab: Lab::Three(ALPHA3[0]), len: 5, kind: 0 },
        Item::Complete { lab: Lab::Broadcast, len: 5, kind: 0 },
        Item::Complete { lab: Lab::ReUse, len: 5, kind: 0 },
        Item::Complete { lab: a, len: 5, kind: 1 },
        Item::Complete { lab: a, len: 5, kind: 2 },
        Item::Complete { lab: a, len: 5, kind: 3 },
        Item::Complete { lab: a, len: 5, kind: 4 },
        Item::Start { id: 0, lab: a, len: 30, first_payload: 5, ext: false },
        Item::Start { id: 1, lab: Lab::Three(ALPHA3[0]), len: 30, first_payload: 5, ext: true },
        Item::Cont { k: 0, n: 5, corrupt: false },
        Item::Cont { k: 0, n: 100, corrupt: false },
        Item::Cont { k: 0, n: 100, corrupt: true },
        Item::Orphan { id: 3, end: false },
        Item::Orphan { id: 3, end: true },
    ]
}

fn enum_depth(t: Tier) -> u32 {
    t.pick(5, 7)
}

fn enum_size(t: Tier) -> u64 {
    PADS.len() as u64 * (1..=enum_depth(t)).map(|k| N_ALPHA.pow(k)).sum::<u64>()
}

fn enum_case(t: Tier, i: u64) -> Case {
    let alpha = enum_alphabet();
    let pad = PADS[(i % PADS.len() as u64) as usize];
    let mut i = i / PADS.len() as u64;
    let mut k = 1;
    while k < enum_depth(t) && i >= N_ALPHA.pow(k) {
        i -= N_ALPHA.pow(k);
        k += 1;
    }
    let mut items = vec![];
    for _ in 0..k {
        items.push((false, alpha[(i % N_ALPHA) as usize].clone()));
        i /= N_ALPHA;
    }
    Case { reuse: ReuseCfg::Default, storage: 10000, free_bufs: 4, know_mand: true, items, pad, garbage: None }
}

fn check_enum(i: u64, st: &mut Stats) -> Result<(), String> {
    check(&enum_case(st.tier, i), st)
}

pub fn property() -> Property {
    Property {
        id: "C10",
        rule: "1..12/24 packets produced by the real encapsulator from several PDUs (complete packets with PDUs of 0..2 bytes and more, optional extensions, signalling protocol types 0x0081/0x0082, final mandatory extensions, mandatory extensions unknown to the receiver; first fragments with and without extensions; continuation packets of any open train, trains continuing across frames; end packets with a corrupted trailer; orphan fragments of trains the receiver never saw), laid back to back in frames with 0..39 trailing zero bytes, receivers with ample / too small / no storage and with or without knowledge of the mandatory ids; alternatively the first packet followed by random garbage. oracle: walker A (decap on the remaining slice, advance by the consumed length) sees every packet exactly once, in order, with the same outcome as twin B that gets each packet alone, every outcome consuming exactly the packet's length (rejections included), then a padding status consuming the rest when >= 2 bytes remain; garbage after a packet does not change its outcome; no emitted packet starts with a zero nibble. non-trivial = a frame of >= 3 packets with a rejected packet before an accepted one, an extension-bearing packet followed by other bytes, or padding; or the garbage variant",
        assumptions: &["both receivers are prepared identically and get delivered buffers back in the same order"],
        parts: vec![Box::new(EnumPart {
            name: "all-short-frames",
            rule: "one frame made of every sequence of 1..=5 (thorough 1..=7) items over 16 (complete packets: 6-byte / empty PDU / 3-byte / broadcast / explicit re-use / optional extension / signalling type / final mandatory extension / unknown mandatory extension; first fragments with and without extension; continuation by 5 bytes, to the end, to the end with a corrupted trailer; orphan intermediate and end fragments) followed by 0, 1, 2, 3 or 9 padding bytes; exhaustive for that alphabet and depth; same oracle as the frames",
            size: enum_size,
            exhaustive: |_| true,
            check: check_enum,
            describe: |t, i| serde_json::to_value(enum_case(t, i)).unwrap_or(Value::Null),
            required_classes: &["completed", "fragmented", "padding", "end-with-bad-crc", "orphan-fragment", "signalling/final-mandatory"],
        }), Box::new(GenPart {
            name: "frames",
            rule: "see property rule",
            cases: (1_500_000, 30_000_000),
            fuzz_decode: Some(crate::fuzzdec::c10_case),
            strategy,
            check,
            required_classes: &["completed", "fragmented", "padding", "end-with-bad-crc", "orphan-fragment", "receiver-without-storage", "receiver-storage-too-small", "receiver-knows-no-mandatory-id", "explicit-re-use-at-frame-start", "signalling/final-mandatory", "pdu<=2-bytes", "garbage-after-first-packet"],
        })],
    }
}
