//! C04 — label re-use never attributes a PDU to a label the sender did not intend.

use super::c05::{mutate, Mutation};
use crate::common::*;
use crate::engine::{bx, hash_of, EnumPart, GenPart, Property, Stats, Tier};
use crate::oracle::refcodec::{self, Parsed};
use crate::oracle::refrx::{Eff, RefRx, Seen};
use dvb_gse_rust::gse_decap::{DecapStatus, GseDecapMemory};
use dvb_gse_rust::gse_encap::{ContextFrag, EncapStatus};
use proptest::prelude::*;
use serde::{Deserialize, Serialize};
use serde_json::{json, Value};
use std::collections::HashMap;

// ---------------------------------------------------------------------------------------------
// part a: sender and receiver in lock step

#[derive(Clone, Copy, Debug, PartialEq, Eq, Hash, Serialize, Deserialize)]
pub enum Outcome {
    Complete,
    Fragment,
    FailSmallBuffer,
    FailPduTooLong,
    FailBadPtype,
    FailZeroLabel,
}

#[derive(Clone, Copy, Debug, PartialEq, Eq, Hash, Serialize, Deserialize)]
pub enum Op {
    /// lab: 0..=4 alphabet, 5 broadcast, 6 explicit re-use
    Send { lab: u8, outcome: Outcome, ext: bool, frag_id: u8, len: u8 },
    /// continue the k-th open train (monotone index) with a buffer of 7 + n bytes
    Cont { k: u16, n: u8 },
    ResetBoth,
    Disable,
    Enable,
    Max(u8),
}

#[derive(Clone, Debug, PartialEq, Eq, Hash, Serialize, Deserialize)]
pub struct CaseA {
    pub ops: Vec<Op>,
}

fn alpha(i: u8) -> Lab {
    match i {
        0 => Lab::Six(ALPHA6[0]),
        1 => Lab::Six(ALPHA6[1]),
        2 => Lab::Three(ALPHA3[0]),
        3 => Lab::Three(ALPHA3[1]),
        4 => Lab::Six(ALPHA6[2]),
        5 => Lab::Broadcast,
        _ => Lab::ReUse,
    }
}

fn strategy_a(t: Tier) -> BoxedStrategy<CaseA> {
    let outcome = prop_oneof![
        5 => Just(Outcome::Complete),
        3 => Just(Outcome::Fragment),
        2 => Just(Outcome::FailSmallBuffer),
        1 => Just(Outcome::FailPduTooLong),
        1 => Just(Outcome::FailBadPtype),
        1 => Just(Outcome::FailZeroLabel),
    ];
    let op = prop_oneof![
        12 => (prop_oneof![8 => 0u8..3, 2 => 3u8..5, 2 => Just(5u8), 2 => Just(6u8)], outcome, prop_oneof![4 => Just(false), 1 => Just(true)], 0u8..4, 0u8..60).prop_map(|(lab, outcome, ext, frag_id, len)| Op::Send { lab, outcome, ext, frag_id, len }),
        4 => (any::<u16>(), 0u8..40).prop_map(|(k, n)| Op::Cont { k, n }),
        1 => Just(Op::ResetBoth),
        1 => Just(Op::Disable),
        1 => Just(Op::Enable),
        1 => prop_oneof![1u8..4, any::<u8>()].prop_map(Op::Max),
    ];
    bx(prop::collection::vec(op, 1..t.pick(40, 100)).prop_map(|ops| CaseA { ops }))
}

struct Sent {
    lab: Lab,
    /// label the receiver must report (None = no obligation / undeterminable)
    expect: Option<Lab>,
    must_deliver: bool,
    all_emitted: bool,
    delivered: u32,
}

struct OpenTrain {
    seq: usize,
    pdu: Vec<u8>,
    ctx: ContextFrag,
    frag_id: u8,
}

fn too_long_pdu() -> &'static Vec<u8> {
    use std::sync::OnceLock;
    static V: OnceLock<Vec<u8>> = OnceLock::new();
    V.get_or_init(|| vec![0x33u8; 65534])
}

fn check_a(c: &CaseA, st: &mut Stats) -> Result<(), String> {
    let mut enc = new_enc();
    let mut dec = new_simple_dec(256, 0, &[512; 16], TableManager::all());
    let mut sent: Vec<Sent> = vec![];
    let mut open: Vec<OpenTrain> = vec![];
    // effective label of the frame as carried by the packets the sender emitted
    let mut eff: Option<Lab> = None;
    let mut fail_between_equal = false;
    let mut settings_between_equal = false;
    let mut last_ok_label: Option<Lab> = None;
    let mut disturbance_since_last_ok: u8 = 0; // bit0 failed call, bit1 settings change
    let mut reuse_first_fragment = false;

    let feed = |dec: &mut SimpleDec, pkt: &[u8], sent: &mut Vec<Sent>, st: &mut Stats, ops: &[Op], at: usize| -> Result<(), String> {
        match call_decap(dec, pkt) {
            Err(p) => st.violation(&format!("panic {}", p.site()), format!("ops {:?}: decap of the packet emitted by op #{} panicked: {}", ops, at, p.0)),
            Ok(Ok((DecapStatus::CompletedPkt(b, md), _))) => {
                // match by content tag: first two bytes = sequence number
                let r = if md.pdu_len() >= 2 {
                    let seq = u16::from_be_bytes([b[0], b[1]]) as usize;
                    if seq < sent.len() {
                        sent[seq].delivered += 1;
                        match sent[seq].expect {
                            Some(l) if Lab::of(&md.label()) != l => st.violation(
                                "mis-attributed",
                                format!("ops {:?}: PDU #{} (sent by an op with label {:?}, receiver must report {:?}) was delivered with label {:?} at op #{}", ops, seq, sent[seq].lab, l, md.label(), at),
                            ),
                            None if sent[seq].lab == Lab::ReUse => st.violation(
                                "reuse-resolved-without-label",
                                format!("ops {:?}: PDU #{} was sent with an explicit re-use label while no label was in force, yet it was delivered with {:?}", ops, seq, md.label()),
                            ),
                            _ => Ok(()),
                        }
                    } else {
                        st.violation("unknown-delivery", format!("ops {:?}: delivered a PDU with unknown tag {}", ops, seq))
                    }
                } else {
                    st.violation("unknown-delivery", format!("ops {:?}: delivered a {}-byte PDU nobody sent", ops, md.pdu_len()))
                };
                let _ = dec.memory.provision_storage(b);
                r
            }
            Ok(_) => Ok(()),
        }
    };

    for (i, op) in c.ops.iter().enumerate() {
        match *op {
            Op::ResetBoth => {
                enc.reset_last_label();
                dec.reset_last_label();
                eff = None;
            }
            Op::Disable => {
                enc.disable_re_use_label();
                disturbance_since_last_ok |= 2;
            }
            Op::Enable => {
                enc.enable_re_use_label();
                disturbance_since_last_ok |= 2;
            }
            Op::Max(n) => {
                enc.enable_re_use_label_with_max_consecutive(n);
                disturbance_since_last_ok |= 2;
            }
            Op::Cont { k, n } => {
                if open.is_empty() {
                    continue;
                }
                let j = idx16(k, open.len());
                let mut b = vec![0u8; 7 + n as usize];
                let tr = &open[j];
                match call_encap_frag(&enc, &tr.pdu, &tr.ctx, &mut b) {
                    Err(p) => return st.violation(&format!("panic {}", p.site()), format!("ops {:?} #{}: encap_frag panicked: {}", c.ops, i, p.0)),
                    Ok(Err(_)) => {}
                    Ok(Ok(EncapStatus::FragmentedPkt(len, cx))) => {
                        let seq = tr.seq;
                        open[j].ctx = cx;
                        feed(&mut dec, &b[..len as usize], &mut sent, st, &c.ops, i)?;
                        let _ = seq;
                    }
                    Ok(Ok(EncapStatus::CompletedPkt(len))) => {
                        let seq = tr.seq;
                        open.remove(j);
                        sent[seq].all_emitted = true;
                        feed(&mut dec, &b[..len as usize], &mut sent, st, &c.ops, i)?;
                    }
                }
            }
            Op::Send { lab, outcome, ext, frag_id, len } => {
                let mut label = alpha(lab);
                let seq = sent.len();
                let mut pdu: Vec<u8> = (seq as u16).to_be_bytes().to_vec();
                pdu.extend(pdu_bytes(len as usize + 8, 900 + seq as u32));
                let mut ptype = 0x0800u16;
                let too_long;
                let (pdu_ref, buf_len): (&[u8], usize) = match outcome {
                    Outcome::Complete => (&pdu, 200),
                    Outcome::Fragment => (&pdu, (7 + label.len() + if ext { 6 } else { 0 } + 3).max(13)),
                    Outcome::FailSmallBuffer => (&pdu, 5),
                    Outcome::FailPduTooLong => {
                        too_long = too_long_pdu();
                        if label.len() < 3 {
                            label = Lab::Six(ALPHA6[0]);
                        }
                        (too_long, 4000)
                    }
                    Outcome::FailBadPtype => {
                        ptype = 0x0300;
                        (&pdu, 200)
                    }
                    Outcome::FailZeroLabel => {
                        label = Lab::Six([0; 6]);
                        (&pdu, 200)
                    }
                };
                let mut b = vec![0u8; buf_len];
                let r = if ext && !matches!(outcome, Outcome::FailPduTooLong) {
                    let e = ExtSpec { id: 0x0301, data: vec![9, 9, 9, 9] }.build()?;
                    call_encap_ext(&mut enc, pdu_ref, frag_id, ptype, label, &mut b, vec![e])
                } else {
                    call_encap(&mut enc, pdu_ref, frag_id, ptype, label, &mut b)
                };
                let r = match r {
                    Ok(r) => r,
                    Err(p) => return st.violation(&format!("panic {}", p.site()), format!("ops {:?} #{}: encap panicked: {}", c.ops, i, p.0)),
                };
                let is_fail = matches!(outcome, Outcome::FailSmallBuffer | Outcome::FailPduTooLong | Outcome::FailBadPtype | Outcome::FailZeroLabel);
                match r {
                    Err(_) => {
                        st.class("failed-call");
                        disturbance_since_last_ok |= 1;
                        if !is_fail {
                            return st.violation("send-failed", format!("ops {:?} #{}: a call meant to succeed failed", c.ops, i));
                        }
                    }
                    Ok(s) => {
                        if is_fail {
                            return st.violation("fail-op-succeeded", format!("ops {:?} #{}: a call meant to fail returned {:?}", c.ops, i, s));
                        }
                        let (n, cx) = match s {
                            EncapStatus::CompletedPkt(n) => (n as usize, None),
                            EncapStatus::FragmentedPkt(n, cx) => (n as usize, Some(cx)),
                        };
                        let pkt = b[..n].to_vec();
                        let written = match refcodec::parse(&pkt, &mand_lookup) {
                            Ok(Parsed::Packet(p, _)) => Lab::from_wire(p.lt, &p.label),
                            o => return st.violation("unparsable", format!("ops {:?} #{}: emitted packet does not parse: {:?}", c.ops, i, o.map(|_| ()))),
                        };
                        // what the receiver must report for this PDU
                        let expect = match label {
                            Lab::ReUse => eff,
                            l => Some(l),
                        };
                        match written {
                            Lab::Six(_) | Lab::Three(_) => eff = Some(written),
                            Lab::Broadcast => eff = None,
                            Lab::ReUse => {}
                        }
                        if label.is_addr() {
                            if last_ok_label == Some(label) {
                                if disturbance_since_last_ok & 1 != 0 {
                                    fail_between_equal = true;
                                }
                                if disturbance_since_last_ok & 2 != 0 {
                                    settings_between_equal = true;
                                }
                            }
                        }
                        last_ok_label = Some(label);
                        disturbance_since_last_ok = 0;
                        st.class_if(label.is_addr() && written == Lab::ReUse, "substituted");
                        if written == Lab::ReUse && cx.is_some() {
                            reuse_first_fragment = true;
                        }
                        // a newer first fragment on the same id abandons older trains of that id
                        if cx.is_some() {
                            open.retain(|t| t.frag_id != frag_id);
                        }
                        sent.push(Sent { lab: label, expect, must_deliver: label != Lab::ReUse, all_emitted: cx.is_none(), delivered: 0 });
                        if let Some(cx) = cx {
                            open.push(OpenTrain { seq, pdu: pdu.clone(), ctx: cx, frag_id });
                        }
                        feed(&mut dec, &pkt, &mut sent, st, &c.ops, i)?;
                    }
                }
            }
        }
    }
    for (seq, s) in sent.iter().enumerate() {
        if s.delivered > 1 {
            return st.violation("delivered-twice", format!("ops {:?}: PDU #{} delivered {} times", c.ops, seq, s.delivered));
        }
        if s.all_emitted && s.must_deliver && s.delivered != 1 {
            return st.violation("not-delivered", format!("ops {:?}: PDU #{} (label {:?}) was completely emitted but delivered {} times", c.ops, seq, s.lab, s.delivered));
        }
    }
    st.class_if(fail_between_equal, "failed-call-between-equal-labels");
    st.class_if(settings_between_equal, "settings-change-between-equal-labels");
    st.class_if(reuse_first_fragment, "re-use-first-fragment");
    if fail_between_equal || settings_between_equal || reuse_first_fragment {
        st.nontrivial(hash_of(c));
    }
    st.sample(|| json!({"ops": c.ops.iter().map(|o| format!("{:?}", o)).collect::<Vec<_>>(), "pdus_sent": sent.len()}));
    Ok(())
}

// ---------------------------------------------------------------------------------------------
// part b: the receiver alone, judged against the reference effective-label register

#[derive(Clone, Debug, PartialEq, Eq, Hash, Serialize, Deserialize)]
pub enum RxB {
    /// start/complete packet built by RefCodec: kind 0 complete, 1 first fragment;
    /// ext: 0 none, 1 optional, 2 unknown mandatory; lab incl. re-use and zero
    Start { kind: u8, lab: Lab, ext: u8, len: u8, id: u8, muts: Vec<Mutation> },
    Reset,
    /// drain the free list (storage exhausted)
    Drain,
    Provision,
    Raw(Vec<u8>),
}

#[derive(Clone, Debug, PartialEq, Eq, Hash, Serialize, Deserialize)]
pub struct CaseB {
    pub ops: Vec<RxB>,
}

fn strategy_b(t: Tier) -> BoxedStrategy<CaseB> {
    let lab = prop_oneof![
        3 => (0u8..5).prop_map(alpha),
        1 => Just(Lab::Broadcast),
        4 => Just(Lab::ReUse),
        1 => Just(Lab::Six([0; 6])),
    ];
    let m = (0u8..6, any::<u16>(), any::<u8>()).prop_map(|(kind, at, val)| Mutation { kind, at, val });
    let op = prop_oneof![
        14 => (0u8..2, lab, prop_oneof![5 => Just(0u8), 1 => Just(1u8), 1 => Just(2u8)], 0u8..80, 0u8..4, prop_oneof![6 => Just(vec![]), 1 => prop::collection::vec(m, 1..3)])
            .prop_map(|(kind, lab, ext, len, id, muts)| RxB::Start { kind, lab, ext, len, id, muts }),
        1 => Just(RxB::Reset),
        1 => Just(RxB::Drain),
        2 => Just(RxB::Provision),
        1 => prop::collection::vec(any::<u8>(), 0..12).prop_map(RxB::Raw),
        // zero padding: ends the frame (and with it the validity of the label in force)
        1 => (2usize..6).prop_map(|n| RxB::Raw(vec![0u8; n])),
    ];
    bx(prop::collection::vec(op, 1..t.pick(30, 80)).prop_map(|ops| CaseB { ops }))
}

fn check_b(c: &CaseB, st: &mut Stats) -> Result<(), String> {
    let mut dec = new_simple_dec(4, 0, &[64, 64, 64], TableManager::all());
    let mut model = RefRx::new();
    let mut label_changes = 0u32;
    let mut judged_after_changes = false;
    let mut last_known: Option<Lab> = None;
    for (i, op) in c.ops.iter().enumerate() {
        let bytes: Vec<u8> = match op {
            RxB::Reset => {
                dec.reset_last_label();
                model.reset_label();
                continue;
            }
            RxB::Drain => {
                while dec.new_pdu().is_ok() {}
                continue;
            }
            RxB::Provision => {
                let _ = dec.provision_storage(vec![0u8; 64].into_boxed_slice());
                continue;
            }
            RxB::Raw(b) => b.clone(),
            RxB::Start { kind, lab, ext, len, id, muts } => {
                let exts = match ext {
                    1 => vec![ExtSpec { id: 0x0205, data: vec![1, 2] }],
                    2 => vec![ExtSpec { id: 0x0077, data: vec![] }],
                    _ => vec![],
                };
                let pdu = pdu_bytes((*len as usize).min(60), 12);
                let mut b = if *kind == 0 {
                    ref_complete(*lab, 0x0800, &pdu, &exts, false)
                } else {
                    crate::oracle::refcodec::RefPacket {
                        start: true,
                        end: false,
                        lt: lab.lt(),
                        frag_id: Some(*id),
                        total_len: Some((2 + lab.len() + pdu.len() + 5) as u16),
                        label: lab.bytes(),
                        exts: exts.iter().map(|e| (e.id, e.data.clone())).collect(),
                        ptype: Some(0x0800),
                        first_type: None,
                        payload: pdu.clone(),
                        crc: None,
                    }
                    .encode(false)
                };
                for m in muts {
                    mutate(&mut b, m);
                }
                b
            }
        };
        let had_label = matches!(model.eff, Eff::Known(Some(_)));
        let seen = model.observe(&bytes, &mand_lookup);
        st.class_if(had_label && matches!(seen, Seen::Padding), "padding-while-a-label-was-in-force");
        if let Eff::Known(Some(l)) = &model.eff {
            if last_known != Some(*l) {
                label_changes += 1;
                last_known = Some(*l);
            }
        }
        let r = match call_decap(&mut dec, &bytes) {
            Ok(r) => r,
            Err(p) => return st.violation(&format!("panic {}", p.site()), format!("ops {:?} #{}: decap({}) panicked: {}", c.ops, i, hex(&bytes), p.0)),
        };
        let (carried_reuse, expected) = match &seen {
            Seen::Complete { pkt, label, .. } | Seen::First { pkt, label, .. } => (pkt.lt == 3, label.clone()),
            _ => (false, Eff::Unknown),
        };
        if let Ok((DecapStatus::CompletedPkt(b, _), _)) = &r {
            let _ = dec.memory.provision_storage(b.clone());
        }
        if !carried_reuse {
            continue;
        }
        st.class("re-use-start-packet");
        st.class_if(expected == Eff::Unknown, "re-use-after-malformed-input");
        let md = match &r {
            Ok((DecapStatus::CompletedPkt(_, md), _)) | Ok((DecapStatus::FragmentedPkt(md), _)) => md.clone(),
            _ => {
                st.class("re-use-rejected");
                continue;
            }
        };
        match expected {
            Eff::Unknown => st.class("not-judged(preceded-by-malformed)"),
            Eff::Known(None) => {
                return st.violation(
                    "reuse-resolved-without-label",
                    format!("ops {:?} #{}: a re-use packet was accepted with label {:?} although the nearest preceding start/complete packet of the frame carried no re-usable label", c.ops, i, md.label()),
                );
            }
            Eff::Known(Some(l)) => {
                st.class("re-use-resolved");
                if label_changes >= 2 {
                    judged_after_changes = true;
                }
                if Lab::of(&md.label()) != l {
                    return st.violation(
                        "reuse-resolved-to-other-label",
                        format!("ops {:?} #{}: re-use resolved to {:?}, the nearest preceding start/complete packet carried {:?}", c.ops, i, md.label(), l),
                    );
                }
            }
        }
    }
    if judged_after_changes {
        st.nontrivial(hash_of(c));
    }
    st.sample(|| json!({"ops": c.ops.iter().map(|o| format!("{:?}", o)).collect::<Vec<_>>()}));
    Ok(())
}

// ---------------------------------------------------------------------------------------------
// part a, enumerated: every history up to a depth over a fixed alphabet

fn enum_alphabet() -> [Op; 18] {
    let send = |lab: u8, outcome: Outcome, ext: bool, frag_id: u8| Op::Send { lab, outcome, ext, frag_id, len: 0 };
    [
        send(0, Outcome::Complete, false, 0),
        send(1, Outcome::Complete, false, 0),
        send(2, Outcome::Complete, false, 0),
        send(5, Outcome::Complete, false, 0),
        send(6, Outcome::Complete, false, 0),
        send(0, Outcome::Fragment, false, 0),
        send(1, Outcome::Fragment, false, 1),
        send(6, Outcome::Fragment, false, 2),
        // a 10-byte PDU whose first fragment carried 3 bytes is finished by one 14-byte buffer
        Op::Cont { k: 0, n: 7 },
        Op::Cont { k: u16::MAX, n: 7 },
        Op::ResetBoth,
        Op::Disable,
        Op::Enable,
        Op::Max(1),
        send(0, Outcome::FailSmallBuffer, false, 0),
        send(0, Outcome::Complete, true, 0),
        send(0, Outcome::FailPduTooLong, false, 0),
        send(0, Outcome::Fragment, true, 3),
    ]
}

fn enum_depth(t: Tier) -> u32 {
    t.pick(5, 7)
}

fn enum_size(t: Tier) -> u64 {
    (1..=enum_depth(t)).map(|k| 18u64.pow(k)).sum()
}

fn enum_case(t: Tier, mut i: u64) -> CaseA {
    let alpha = enum_alphabet();
    let mut k = 1;
    while k < enum_depth(t) && i >= 18u64.pow(k) {
        i -= 18u64.pow(k);
        k += 1;
    }
    let mut ops = Vec::with_capacity(k as usize);
    for _ in 0..k {
        ops.push(alpha[(i % 18) as usize]);
        i /= 18;
    }
    CaseA { ops }
}

fn check_enum(i: u64, st: &mut Stats) -> Result<(), String> {
    check_a(&enum_case(st.tier, i), st)
}

#[allow(dead_code)]
fn _unused(_: HashMap<u8, u8>) {}

pub fn property() -> Property {
    Property {
        id: "C04",
        rule: "part a (lock step): histories of up to 40/100 operations over {encap / encap_ext with a 5-label alphabet, broadcast or explicit re-use, steered to complete / first fragment / fail (buffer too small, PDU too long, bad protocol type, zero label); encap_frag continuation of any open train; reset of both sides; disable; enable; enable-with-max}; every packet the sender reported as produced is fed in order to a receiver with ample storage; each delivered PDU is matched to the sender's record by a content tag and must carry the label passed (explicit re-use: the label in force on the wire), and every completely emitted PDU with an explicit or broadcast label must be delivered exactly once. part b (receiver alone): sequences of valid, rejected (unknown mandatory extension, zero label, no storage) and mutated start/complete packets, resets, storage exhaustion; whenever decap accepts a re-use packet its label must equal the reference effective-label register computed from the received bytes (not judged after malformed input). non-trivial = (a) a failed call or a settings change between two successful calls with equal labels, or a re-use first fragment; (b) a resolution judged after >= 2 label changes",
        assumptions: &["a newer first fragment on a frag id abandons older trains of that id (the harness stops continuing them)", "after anything RefCodec calls malformed the reference does not claim to know the label in force"],
        parts: vec![
            Box::new(EnumPart {
                name: "lock-step-all-histories",
                rule: "every history of 1..=5 (thorough 1..=7) operations over 18 operations: complete packets to two 6-byte labels, a 3-byte label, broadcast, explicit re-use; first fragments (two labels, explicit re-use, one with an extension) on distinct frag ids; finish the oldest / the newest open train; reset both; disable; enable; max 1; failing calls (small buffer, PDU too long); a complete packet with an extension. exhaustive for that alphabet and depth; same oracle as lock-step",
                size: enum_size,
                exhaustive: |_| true,
                check: check_enum,
                describe: |t, i| serde_json::to_value(enum_case(t, i)).unwrap_or(Value::Null),
                required_classes: &["substituted", "failed-call", "failed-call-between-equal-labels", "settings-change-between-equal-labels", "re-use-first-fragment"],
            }),
            Box::new(GenPart {
                name: "lock-step",
                rule: "see property rule",
                cases: (1_000_000, 20_000_000),
                fuzz_decode: Some(crate::fuzzdec::c04a_case),
                strategy: strategy_a,
                check: check_a,
                required_classes: &["substituted", "failed-call", "failed-call-between-equal-labels", "settings-change-between-equal-labels", "re-use-first-fragment"],
            }),
            Box::new(GenPart {
                name: "receiver-alone",
                rule: "see property rule",
                cases: (1_000_000, 20_000_000),
                fuzz_decode: Some(crate::fuzzdec::c04b_case),
                strategy: strategy_b,
                check: check_b,
                required_classes: &["re-use-start-packet", "re-use-rejected", "re-use-resolved", "re-use-after-malformed-input", "padding-while-a-label-was-in-force"],
            }),
        ],
    }
}
