use crate::engine::Property;

pub mod rxstate;
pub mod sender;
pub mod c01;
pub mod c02;
pub mod c03;
pub mod c04;
pub mod c05;
pub mod c06;
pub mod c07;
pub mod c08;
pub mod c09;
pub mod c10;
pub mod c11;
pub mod c12;
pub mod c13;
pub mod c14;
pub mod c15;
pub mod c16;
pub mod c17;
pub mod c18;
pub mod c19;
pub mod c20;

pub fn ids() -> Vec<&'static str> {
    vec!["C01", "C02", "C03", "C04", "C05", "C06", "C07", "C08", "C09", "C10", "C11", "C12", "C13", "C14", "C15", "C16", "C17", "C18", "C19", "C20"]
}

pub fn get(id: &str) -> Option<Property> {
    Some(match id {
        "C01" => c01::property(),
        "C02" => c02::property(),
        "C03" => c03::property(),
        "C04" => c04::property(),
        "C05" => c05::property(),
        "C06" => c06::property(),
        "C07" => c07::property(),
        "C08" => c08::property(),
        "C09" => c09::property(),
        "C10" => c10::property(),
        "C11" => c11::property(),
        "C12" => c12::property(),
        "C13" => c13::property(),
        "C14" => c14::property(),
        "C15" => c15::property(),
        "C16" => c16::property(),
        "C17" => c17::property(),
        "C18" => c18::property(),
        "C19" => c19::property(),
        "C20" => c20::property(),
        _ => return None,
    })
}
