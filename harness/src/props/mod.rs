use crate::engine::Property;

pub mod c12;
pub mod c14;

pub fn ids() -> Vec<&'static str> {
    vec!["C12", "C14"]
}

pub fn get(id: &str) -> Option<Property> {
    Some(match id {
        "C12" => c12::property(),
        "C14" => c14::property(),
        _ => return None,
    })
}
