//! C05 — decap (and the peek) are total on arbitrary bytes: no panic, bounded and
//! progressing consumption.

use super::rxstate::*;
use crate::common::*;
use crate::engine::{bx, guard, hash_of, EnumPart, GenPart, Property, Stats, Tier};
use dvb_gse_rust::gse_decap::{DecapStatus, GseDecapMemory};
use proptest::prelude::*;
use serde::{Deserialize, Serialize};
use serde_json::{json, Value};

/// The C05 oracle on one buffer in one decapsulator (walks the whole buffer).
pub fn total_and_progressing<M: GseDecapMemory>(d: &mut Dec<M, TableManager>, buf: &[u8], st: &mut Stats, ctx: &dyn Fn() -> String) -> Result<bool, String> {
    // peek first (takes &self)
    if let Err(p) = guard(|| d.get_label_or_frag_id(buf).is_ok()) {
        st.violation(&format!("peek-panic {}", p.site()), format!("get_label_or_frag_id({}) panicked: {} [{}]", hex(buf), p.0, ctx()))?;
    }
    let mut off = 0usize;
    let mut steps = 0usize;
    let mut reached_decoder = false;
    loop {
        let rest = &buf[off..];
        let r = call_decap(d, rest);
        let consumed = match &r {
            Err(p) => {
                st.violation(&format!("decap-panic {}", p.site()), format!("decap({}) panicked: {} [{}; offset {}]", hex(rest), p.0, ctx(), off))?;
                return Ok(reached_decoder);
            }
            Ok(Ok((s, n))) => {
                if !matches!(s, DecapStatus::Padding) {
                    reached_decoder = true;
                }
                if let DecapStatus::CompletedPkt(b, _) = s {
                    // give the buffer back, as a caller would
                    let _ = d.memory.provision_storage(b.clone());
                }
                *n
            }
            Ok(Err((e, n))) => {
                // errors other than the two frame-level guards come from a per-type decoder
                if rest.len() >= 2 {
                    let announced = (u16::from_be_bytes([rest[0], rest[1]]) & 0x0FFF) as usize + 2;
                    if rest.len() >= announced || !matches!(e, dvb_gse_rust::gse_decap::DecapError::ErrorSizeBuffer) {
                        reached_decoder = true;
                    }
                }
                *n
            }
        };
        if consumed > rest.len() {
            st.violation("consumed>len", format!("decap({}) consumed {} of {} bytes: {} [{}]", hex(rest), consumed, rest.len(), show_dec(&r), ctx()))?;
            return Ok(reached_decoder);
        }
        if !rest.is_empty() && consumed < rest.len().min(2) {
            st.violation("no-progress", format!("decap({}) consumed {} of {} bytes: {} [{}]", hex(rest), consumed, rest.len(), show_dec(&r), ctx()))?;
            return Ok(reached_decoder);
        }
        off += consumed;
        steps += 1;
        if off >= buf.len() {
            break;
        }
        if steps > buf.len() / 2 + 1 {
            st.violation("walker-too-many-steps", format!("frame walker needed more than len/2+1 steps [{}]", ctx()))?;
            break;
        }
    }
    Ok(reached_decoder)
}

// ---- part 1: all byte strings of length 0..=3 in every state class ---------------------------

const SHORT_PER_STATE: u64 = 1 + 256 + 65536 + 16_777_216;

fn short_decode(i: u64) -> (u64, Vec<u8>) {
    let state = i / SHORT_PER_STATE;
    let j = i % SHORT_PER_STATE;
    let bytes = if j == 0 {
        vec![]
    } else if j < 1 + 256 {
        vec![(j - 1) as u8]
    } else if j < 1 + 256 + 65536 {
        let v = (j - 257) as u16;
        v.to_be_bytes().to_vec()
    } else {
        let v = (j - 65793) as u32;
        vec![(v >> 16) as u8, (v >> 8) as u8, v as u8]
    };
    (state, bytes)
}

/// quick: lengths 0..=2 in all states + length 3 in states 0 and 3; thorough: everything
fn short_size(t: Tier) -> u64 {
    match t {
        Tier::Quick => N_STATES * 65793 + 2 * 16_777_216,
        Tier::Thorough => N_STATES * SHORT_PER_STATE,
    }
}

fn short_index(t: Tier, i: u64) -> u64 {
    match t {
        Tier::Thorough => i,
        Tier::Quick => {
            if i < N_STATES * 65793 {
                (i / 65793) * SHORT_PER_STATE + i % 65793
            } else {
                let j = i - N_STATES * 65793;
                let state = if j < 16_777_216 { 0 } else { 3 };
                state * SHORT_PER_STATE + 65793 + j % 16_777_216
            }
        }
    }
}

fn check_short(i: u64, st: &mut Stats) -> Result<(), String> {
    let (state, bytes) = short_decode(short_index(st.tier, i));
    let mut d = match build_state(state) {
        Ok(d) => d,
        Err(m) => return st.violation("state-build", m),
    };
    let reached = total_and_progressing(&mut d, &bytes, st, &|| format!("state {}: {}", state, state_name(state)))?;
    if reached {
        st.nontrivial_distinct(1);
        st.class("reached-decoder");
    } else {
        st.class("frame-level");
    }
    Ok(())
}

fn desc_short_q(t: Tier, i: u64) -> Value {
    let (s, b) = short_decode(short_index(t, i));
    json!({"state": state_name(s), "bytes": hex(&b)})
}

// ---- part 2: all fixed headers x truncations x adversarial tails ------------------------------

const N_TAILS: u64 = 7;
const N_TRUNC: u64 = 32;

fn tail_byte(t: u64, k: usize) -> u8 {
    match t {
        0 => 0x00,
        1 => 0xFF,
        // plausible: frag id 1, total length 0x0030, ptype 0x0800, label 01..06, payload
        2 => [0x01u8, 0x00, 0x30, 0x08, 0x00, 1, 2, 3, 4, 5, 6][k.min(10)].wrapping_add(if k > 10 { k as u8 } else { 0 }),
        // endless optional-extension chain (H-LEN 1, no data): 01 00 01 00 ...
        3 => [0x01, 0x00][k % 2],
        // 8-byte optional extensions: 05 00 + 8 data bytes
        4 => if k % 10 == 0 { 0x05 } else if k % 10 == 1 { 0x00 } else { 0xEE },
        // mandatory ids known to the harness table: 00 03 (non-final, 2 data) 00 81 (final)
        5 => [0x00, 0x03, 0xAA, 0xBB, 0x00, 0x81, 0x00, 0x01, 0x00, 0x90, 1, 2][k % 12],
        // frag id 1, total length 0xFFFF, ptype 0x0800
        _ => [0x01u8, 0xFF, 0xFF, 0x08, 0x00][k.min(4)].wrapping_add(if k > 4 { 1 } else { 0 }),
    }
}

/// states exercised by the header sweep
fn hdr_states(t: Tier) -> &'static [u64] {
    match t {
        Tier::Quick => &[0, 3, 11],
        Tier::Thorough => &[0, 1, 2, 3, 4, 5, 6, 7, 8, 9, 10, 11],
    }
}

fn hdr_size(t: Tier) -> u64 {
    hdr_states(t).len() as u64 * 65536 * N_TAILS * N_TRUNC
}

fn hdr_decode(t: Tier, i: u64) -> (u64, Vec<u8>) {
    let trunc = i % N_TRUNC;
    let tail = (i / N_TRUNC) % N_TAILS;
    let h = ((i / N_TRUNC / N_TAILS) % 65536) as u16;
    let state = hdr_states(t)[(i / N_TRUNC / N_TAILS / 65536) as usize];
    let pkt_len = (h & 0x0FFF) as usize + 2;
    // lengths 0..=20 and pkt_len-8 ..= pkt_len+2
    let n = if trunc <= 20 { trunc as usize } else { (pkt_len + 2).saturating_sub((31 - trunc) as usize) };
    let mut b = Vec::with_capacity(n);
    for k in 0..n {
        b.push(match k {
            0 => (h >> 8) as u8,
            1 => h as u8,
            _ => tail_byte(tail, k - 2),
        });
    }
    (state, b)
}

fn check_hdr(i: u64, st: &mut Stats) -> Result<(), String> {
    let (state, bytes) = hdr_decode(st.tier, i);
    let mut d = match build_state(state) {
        Ok(d) => d,
        Err(m) => return st.violation("state-build", m),
    };
    let reached = total_and_progressing(&mut d, &bytes, st, &|| format!("state {}: {}", state, state_name(state)))?;
    if reached {
        st.nontrivial_distinct(1);
        st.class("reached-decoder");
    } else {
        st.class("frame-level");
    }
    Ok(())
}

fn desc_hdr_q(t: Tier, i: u64) -> Value {
    let (s, b) = hdr_decode(t, i);
    json!({"state": state_name(s), "len": b.len(), "bytes": hex(&b)})
}

// ---- part 3: random / mutated packets in random reachable states -------------------------------

#[derive(Clone, Debug, PartialEq, Eq, Hash, Serialize, Deserialize)]
pub enum RxOp {
    /// provision a buffer of the given size class (0 = exact pdu size, 1 = +1, 2 = huge 70000, 3 = too small)
    Provision(u8),
    /// valid complete packet
    Complete { lab: Lab, len: u16 },
    /// valid train, fed up to `upto` packets (so it may stay open)
    Train { lab: Lab, id: u8, len: u16, cut: u16, upto: u8 },
    Reset,
    Raw(Vec<u8>),
    /// valid complete packet (first = false) or first + end fragments carrying an extension chain
    /// (non-final chain followed by `ptype`, or closed by a final mandatory extension)
    Ext { lab: Lab, id: u8, len: u16, first: bool, ptype: u16, exts: Vec<ExtSpec> },
}

#[derive(Clone, Debug, PartialEq, Eq, Hash, Serialize, Deserialize)]
pub struct Mutation {
    /// 0 none, 1 flip bit, 2 truncate, 3 overwrite byte, 4 extend with garbage, 5 set gse length
    pub kind: u8,
    pub at: u16,
    pub val: u8,
}

#[derive(Clone, Debug, PartialEq, Eq, Hash, Serialize, Deserialize)]
pub struct RandCase {
    pub slots: u8,
    pub pdu_size: u16,
    pub prefix: Vec<RxOp>,
    pub base: RxOp,
    pub muts: Vec<Mutation>,
}

pub fn rx_ext_op() -> impl Strategy<Value = RxOp> {
    (lab_any(), frag_id_any(), 0u16..200, any::<bool>(), ptype_user(), prop_oneof![3 => super::sender::ext_chain(false), 1 => super::sender::ext_chain(true)])
        .prop_map(|(lab, id, len, first, ptype, exts)| RxOp::Ext { lab, id, len, first, ptype, exts })
}

pub fn rx_op() -> impl Strategy<Value = RxOp> {
    prop_oneof![
        2 => rx_ext_op(),
        2 => (0u8..4).prop_map(RxOp::Provision),
        2 => (lab_any(), 0u16..300).prop_map(|(lab, len)| RxOp::Complete { lab, len }),
        4 => (lab_any(), frag_id_any(), 1u16..400, 0u16..300, 1u8..4).prop_map(|(lab, id, len, cut, upto)| RxOp::Train { lab, id, len, cut, upto }),
        1 => Just(RxOp::Reset),
        2 => prop::collection::vec(any::<u8>(), 0..40).prop_map(RxOp::Raw),
    ]
}

/// like `rx_op` but only the operations that put packets on the wire (constructive, no filtering)
pub fn rx_pkt_op() -> impl Strategy<Value = RxOp> {
    prop_oneof![
        2 => rx_ext_op(),
        2 => (lab_any(), 0u16..300).prop_map(|(lab, len)| RxOp::Complete { lab, len }),
        4 => (lab_any(), frag_id_any(), 1u16..400, 0u16..300, 1u8..4).prop_map(|(lab, id, len, cut, upto)| RxOp::Train { lab, id, len, cut, upto }),
        2 => prop::collection::vec(any::<u8>(), 0..40).prop_map(RxOp::Raw),
    ]
}

pub fn op_packets(op: &RxOp) -> Vec<Vec<u8>> {
    match op {
        RxOp::Complete { lab, len } => vec![ref_complete(*lab, 0x0800, &pdu_bytes(*len as usize, 7), &[], false)],
        RxOp::Train { lab, id, len, cut, upto } => {
            let pdu = pdu_bytes(*len as usize, 9);
            let c1 = (*cut as usize).min(pdu.len().saturating_sub(1));
            let c2 = (pdu.len() - c1) / 2;
            let mut t = ref_train(*lab, 0x0800, *id, &pdu, &[c1, c2]);
            t.truncate(*upto as usize);
            t
        }
        RxOp::Raw(b) => vec![b.clone()],
        RxOp::Ext { lab, id, len, first, ptype, exts } => {
            let pdu = pdu_bytes(*len as usize, 11);
            let final_mand = exts.last().map(|e| MAND_FINAL.iter().any(|(i, _)| *i == e.id)).unwrap_or(false);
            let pt = if final_mand { exts.last().unwrap().id } else { *ptype };
            if *first && !final_mand && pdu.len() >= 2 {
                ref_train_ext(*lab, pt, *id, &pdu, &[pdu.len() / 2], exts)
            } else {
                vec![ref_complete(*lab, pt, &pdu, exts, final_mand)]
            }
        }
        _ => vec![],
    }
}

pub fn apply_rx_op<M: GseDecapMemory>(d: &mut Dec<M, TableManager>, op: &RxOp, pdu_size: usize, st: &mut Stats) {
    match op {
        RxOp::Provision(c) => {
            let n = match c {
                0 => pdu_size,
                1 => pdu_size + 1,
                2 => 70000,
                _ => pdu_size.saturating_sub(1),
            };
            let _ = d.memory.provision_storage(vec![0u8; n].into_boxed_slice());
        }
        RxOp::Reset => d.reset_last_label(),
        o => {
            for p in op_packets(o) {
                match call_decap(d, &p) {
                    Ok(Ok((DecapStatus::CompletedPkt(b, _), _))) => {
                        let _ = d.memory.provision_storage(b);
                    }
                    Err(_) => st.class("prefix-panic"),
                    _ => {}
                }
            }
        }
    }
}

fn rand_strategy(t: Tier) -> BoxedStrategy<RandCase> {
    let big = t.pick(2048usize, 8192usize);
    let base = prop_oneof![
        3 => rx_pkt_op(),
        1 => prop::collection::vec(any::<u8>(), 0..big).prop_map(RxOp::Raw),
        1 => (lab_any(), 300u16..8000).prop_map(|(lab, len)| RxOp::Train { lab, id: 1, len, cut: 200, upto: 3 }),
    ];
    let m = (0u8..6, any::<u16>(), any::<u8>()).prop_map(|(kind, at, val)| Mutation { kind, at, val });
    bx((prop_oneof![5 => 1u8..=4, 1 => Just(0u8)], prop_oneof![Just(0u16), 1u16..64, 64u16..500], prop::collection::vec(rx_op(), 0..8), base, prop::collection::vec(m, 0..3))
        .prop_map(|(slots, pdu_size, prefix, base, muts)| RandCase { slots, pdu_size, prefix, base, muts }))
}

pub fn mutate(buf: &mut Vec<u8>, m: &Mutation) {
    if buf.is_empty() {
        return;
    }
    let i = idx16(m.at, buf.len());
    match m.kind {
        1 => buf[i] ^= 1 << (m.val & 7),
        2 => buf.truncate(i),
        3 => buf[i] = m.val,
        4 => buf.extend((0..(m.val as usize % 32)).map(|k| m.val.wrapping_mul(k as u8 + 1))),
        5 => {
            if buf.len() >= 2 {
                let l = ((m.at as usize * 4096) >> 16) as u16;
                buf[0] = (buf[0] & 0xF0) | (l >> 8) as u8;
                buf[1] = l as u8;
            }
        }
        _ => {}
    }
}

fn check_rand(c: &RandCase, st: &mut Stats) -> Result<(), String> {
    let mut d = new_simple_dec(slots_of(c.slots), c.pdu_size as usize, &[], TableManager::all());
    st.class_if(c.slots == 0, "256-slots");
    for op in &c.prefix {
        apply_rx_op(&mut d, op, c.pdu_size as usize, st);
    }
    let mut buf: Vec<u8> = op_packets(&c.base).concat();
    for m in &c.muts {
        mutate(&mut buf, m);
    }
    st.class_if(buf.len() > 1000, "buffer>1000");
    st.class_if(!c.muts.is_empty(), "mutated");
    let reached = total_and_progressing(&mut d, &buf, st, &|| "random state".to_string())?;
    if reached {
        st.nontrivial(hash_of(c));
        st.class("reached-decoder");
    }
    st.sample(|| json!({"slots": c.slots, "pdu_size": c.pdu_size, "prefix_ops": c.prefix.len(), "buffer_len": buf.len(), "buffer": hex(&buf), "mutations": c.muts.len()}));
    Ok(())
}

// ---- part 4: very long trains into storages larger than 65535 bytes -----------------------------

#[derive(Clone, Debug, PartialEq, Eq, Hash, Serialize, Deserialize)]
pub struct HugeCase {
    pub storage: u32,
    pub lab: Lab,
    pub total_len: u16,
    pub first_payload: u16,
    pub frag_payload: u16,
    pub n_frags: u8,
    pub end_payload: u16,
}

pub fn huge_strategy(_t: Tier) -> BoxedStrategy<HugeCase> {
    bx((65_000u32..=140_000, lab_addr_or_bcast(), any::<u16>(), 0u16..=4080, 3000u16..=4094, 10u8..=40, 0u16..=4090).prop_map(
        |(storage, lab, total_len, first_payload, frag_payload, n_frags, end_payload)| HugeCase { storage, lab, total_len, first_payload, frag_payload, n_frags, end_payload },
    ))
}

pub fn huge_frame(c: &HugeCase) -> (Vec<Vec<u8>>, usize) {
    use crate::oracle::refcodec::RefPacket;
    let mk = |start: bool, end: bool, n: usize, k: usize| -> Vec<u8> {
        RefPacket {
            start,
            end,
            lt: if start { c.lab.lt() } else { 3 },
            frag_id: Some(5),
            total_len: if start { Some(c.total_len.max(c.first_payload + 1)) } else { None },
            label: if start { c.lab.bytes() } else { vec![] },
            exts: vec![],
            ptype: if start { Some(0x0800) } else { None },
            first_type: None,
            payload: pdu_bytes(n, 100 + k as u32),
            crc: if end { Some(0xDEADBEEF) } else { None },
        }
        .encode(false)
    };
    let mut pk = vec![mk(true, false, c.first_payload as usize, 0)];
    let mut carried = c.first_payload as usize;
    for k in 0..c.n_frags as usize {
        pk.push(mk(false, false, c.frag_payload as usize, k + 1));
        carried += c.frag_payload as usize;
    }
    pk.push(mk(false, true, c.end_payload as usize, 99));
    carried += c.end_payload as usize;
    (pk, carried)
}

fn check_huge(c: &HugeCase, st: &mut Stats) -> Result<(), String> {
    use crate::oracle::refcodec::RefPacket;
    let mut d = new_simple_dec(1, 0, &[c.storage as usize, c.storage as usize], TableManager::all());
    let mk = |start: bool, end: bool, n: usize, k: usize| -> Vec<u8> {
        RefPacket {
            start,
            end,
            lt: if start { c.lab.lt() } else { 3 },
            frag_id: Some(5),
            total_len: if start { Some(c.total_len.max(c.first_payload + 1)) } else { None },
            label: if start { c.lab.bytes() } else { vec![] },
            exts: vec![],
            ptype: if start { Some(0x0800) } else { None },
            first_type: None,
            payload: pdu_bytes(n, 100 + k as u32),
            crc: if end { Some(0xDEADBEEF) } else { None },
        }
        .encode(false)
    };
    let mut frame = mk(true, false, c.first_payload as usize, 0);
    let mut carried = c.first_payload as usize;
    for k in 0..c.n_frags as usize {
        frame.extend(mk(false, false, c.frag_payload as usize, k + 1));
        carried += c.frag_payload as usize;
    }
    frame.extend(mk(false, true, c.end_payload as usize, 99));
    carried += c.end_payload as usize;
    st.class_if(carried > 65535, "carried>65535");
    st.class_if(carried > c.storage as usize, "carried>storage");
    let reached = total_and_progressing(&mut d, &frame, st, &|| format!("huge storage {} bytes, {} fragments", c.storage, c.n_frags as usize + 2))?;
    if reached && carried > 65535 {
        st.nontrivial(hash_of(c));
    }
    st.sample(|| json!({"storage": c.storage, "fragments": c.n_frags as usize + 2, "bytes_carried": carried}));
    Ok(())
}

pub fn property() -> Property {
    Property {
        id: "C05",
        rule: "enumerated: every byte string of length 0..=3 in 12 receiver state classes (quick: lengths 0..=2 in all 12 + length 3 in 2 states), and all 65536 fixed headers x 32 truncation lengths (0..=20 and pkt_len-8..=pkt_len+2) x 7 adversarial tails x 3 (quick) / all 12 (thorough) states; generated: random and mutated-valid buffers up to 2/8 KiB in random reachable states. oracle per buffer (walked to its end by consumed lengths): no panic in decap or get_label_or_frag_id, consumed <= len, consumed >= min(2,len) for non-empty buffers, walker terminates in <= len/2+1 steps. non-trivial = the call got past the two frame-level guards and reached a per-type decoder; enumerated cases are distinct by construction, generated ones by structural hash",
        assumptions: &["states are reached through the public API only (valid RefCodec traffic + provisioning)", "harness profile enables overflow checks, so arithmetic wrap inside the crate surfaces as a panic"],
        parts: vec![
            Box::new(EnumPart {
                name: "short-buffers",
                rule: "all byte strings of length 0..=3 x state classes",
                size: short_size,
                exhaustive: |t| t == Tier::Thorough,
                check: check_short,
                describe: desc_short_q,
                required_classes: &["reached-decoder", "frame-level"],
            }),
            Box::new(EnumPart {
                name: "headers-x-truncations-x-tails",
                rule: "65536 headers x 32 lengths x 7 tails x states",
                size: hdr_size,
                exhaustive: |_| false,
                check: check_hdr,
                describe: desc_hdr_q,
                required_classes: &["reached-decoder", "frame-level"],
            }),
            Box::new(GenPart {
                name: "random-and-mutated",
                rule: "random reachable state + random or mutated-valid buffer",
                cases: (1_200_000, 30_000_000),
                fuzz_decode: Some(crate::fuzzdec::c05_rand),
                strategy: rand_strategy,
                check: check_rand,
                required_classes: &["reached-decoder", "mutated", "buffer>1000"],
            }),
            Box::new(GenPart {
                name: "long-trains-huge-storage",
                rule: "first + 10..40 intermediates of 3000..4094 bytes + end into storages of 65000..140000 bytes (accumulated length beyond 16 bits)",
                cases: (12_000, 300_000),
                fuzz_decode: None,
                strategy: huge_strategy,
                check: check_huge,
                required_classes: &["carried>65535", "carried>storage"],
            }),
        ],
    }
}
