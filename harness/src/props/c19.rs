//! C19 — peeking the label or fragment id agrees with decapsulation.

use super::sender::*;
use crate::common::*;
use crate::engine::{guard, hash_of, EnumPart, GenPart, Property, Stats, Tier};
use crate::oracle::refcodec::{self, Parsed};
use dvb_gse_rust::gse_decap::{DecapStatus, GetLabelorFragIdError, GseDecapMemory, LabelorFragId};
use proptest::prelude::*;
use serde::{Deserialize, Serialize};
use serde_json::{json, Value};
use std::collections::HashMap;

#[derive(Clone, Debug, PartialEq, Eq, Hash, Serialize, Deserialize)]
pub struct Case {
    pub send: SendCase,
    /// bytes appended after each packet when presented "followed by further bytes"
    pub tail: Vec<u8>,
    /// receiver memory slots (0 = 256): with few slots, trains in flight share slots
    #[serde(default)]
    pub slots: u8,
    /// order-preserving merge of the sends' packets (empty = one send after the other)
    #[serde(default)]
    pub merge: Vec<u8>,
}

fn strategy(t: Tier) -> BoxedStrategy<Case> {
    let k = Knobs { with_exts: true, max_sends: 3, max_conts: t.pick(6, 10), tail_min: 7, handmade_pct: 0, tiny_bias: false };
    (send_case(k), prop::collection::vec(any::<u8>(), 1..=64), prop_oneof![2 => Just(0u8), 1 => 1u8..=3], prop_oneof![1 => Just(vec![]), 1 => prop::collection::vec(0u8..3, 1..40)])
        .prop_map(|(send, tail, slots, merge)| Case { send, tail, slots, merge })
        .boxed()
}

fn check(c: &Case, st: &mut Stats) -> Result<(), String> {
    // sender side (C06 judges the packets themselves; here they are only traffic)
    let mut quiet = Stats::new(st.tier, vec![]);
    quiet.recording = false;
    let logs = match run_send_case(&c.send, &mut quiet, Flags { c06: false, c11: false }) {
        Ok(l) => l,
        Err(_) => {
            st.class("sender-defect(C06)");
            return Ok(());
        }
    };
    let max_pdu = c.send.sends.iter().map(|s| s.pdu.len as usize).max().unwrap_or(0) + 8;
    let k = if c.slots == 0 { 256 } else { c.slots as usize };
    let mut dec = new_simple_dec(k, 0, &vec![max_pdu; (k + 2).min(5)], TableManager::all());
    st.class_if(c.slots != 0, "few-slots");
    // label decap associated with the open train of each frag id
    let mut train_label: HashMap<u8, Lab> = HashMap::new();
    let mut nontrivial = false;
    let mut n_pk = 0;
    // presentation order: the sends one after the other, or an order-preserving merge of them
    let mut order: Vec<(usize, usize)> = vec![];
    {
        let mut next = vec![0usize; logs.len()];
        for m in &c.merge {
            let t = *m as usize % logs.len().max(1);
            if t < logs.len() && next[t] < logs[t].packets.len() {
                order.push((t, next[t]));
                next[t] += 1;
            }
        }
        for t in 0..logs.len() {
            while next[t] < logs[t].packets.len() {
                order.push((t, next[t]));
                next[t] += 1;
            }
        }
        st.class_if(order.windows(2).any(|w| w[0].0 > w[1].0), "interleaved-sends");
    }
    for (si, pi) in order {
        let s = &c.send.sends[si];
        let log = &logs[si];
        {
            let pkt = &log.packets[pi];
            n_pk += 1;
            let p = match refcodec::parse(pkt, &mand_lookup) {
                Ok(Parsed::Packet(p, _)) => p,
                _ => {
                    st.class("sender-defect(C06)");
                    return Ok(());
                }
            };
            let mut framed = pkt.clone();
            framed.extend_from_slice(&c.tail);
            let alone = guard(|| dec.get_label_or_frag_id(pkt));
            let followed = guard(|| dec.get_label_or_frag_id(&framed));
            let (alone, followed) = match (alone, followed) {
                (Ok(a), Ok(b)) => (a, b),
                (a, b) => return st.violation("peek-panic", format!("get_label_or_frag_id({}) panicked: {:?} / {:?}", hex(pkt), a.err().map(|p| p.0), b.err().map(|p| p.0))),
            };
            if alone != followed {
                return st.violation("peek-depends-on-following-bytes", format!("peek({}) alone {:?}, followed by {} bytes {:?}", hex(pkt), alone, c.tail.len(), followed));
            }
            let written = Lab::from_wire(p.lt, &p.label);
            let want: Result<LabelorFragId, GetLabelorFragIdError> = if !p.start {
                Ok(LabelorFragId::FragId(s.frag_id))
            } else if written == Lab::ReUse {
                Err(GetLabelorFragIdError::ErrLabelReuse)
            } else {
                Ok(LabelorFragId::Lbl(written.to_label()))
            };
            st.class(match (&want, p.start) {
                (Ok(LabelorFragId::FragId(_)), _) => "frag-id",
                (Ok(_), _) => "label",
                (Err(_), _) => "reuse-error",
            });
            if !p.exts.is_empty() {
                st.class("packet-with-extensions");
                nontrivial = true;
            }
            if written == Lab::ReUse && p.start {
                nontrivial = true;
            }
            if alone != want {
                return st.violation("peek-result", format!("peek({}) = {:?}, expected {:?} ({} packet, label written {:?}, passed {:?})", hex(pkt), alone, want, p.kind(), written, s.lab));
            }
            if p.start && s.lab.is_addr() && written != Lab::ReUse && written != s.lab {
                st.class("sender-defect(C06)");
            }
            // agreement with decap on the same bytes
            let r = call_decap(&mut dec, &framed);
            match &r {
                Err(pn) => return st.violation(&format!("panic {}", pn.site()), format!("decap panicked: {}", pn.0)),
                Ok(Ok((DecapStatus::FragmentedPkt(md), used))) | Ok(Ok((DecapStatus::CompletedPkt(_, md), used))) => {
                    if *used != pkt.len() {
                        return st.violation("decap-consumed", format!("decap({} + tail) consumed {} bytes, the packet has {}", hex(pkt), used, pkt.len()));
                    }
                    let dl = Lab::of(&md.label());
                    if p.start {
                        if let Ok(LabelorFragId::Lbl(l)) = &alone {
                            if Lab::of(l) != dl {
                                return st.violation("peek-vs-decap-label", format!("peek says {:?}, decap associates {:?} for {}", l, dl, hex(pkt)));
                            }
                        }
                        if !p.end {
                            // the first fragment claims its slot: reassemblies of other ids in that slot are gone
                            train_label.retain(|id, _| *id == s.frag_id || (*id as usize % k) != (s.frag_id as usize % k));
                            train_label.insert(s.frag_id, dl);
                        }
                    } else {
                        // the context that advanced / completed is the one opened under the peeked id
                        match train_label.get(&s.frag_id) {
                            Some(l) if *l == dl => {}
                            o => return st.violation("peek-vs-decap-frag-id", format!("peek says frag id {}, decap advanced a context labelled {:?}, the train opened under that id was labelled {:?}", s.frag_id, dl, o)),
                        }
                        if p.end {
                            train_label.remove(&s.frag_id);
                        }
                    }
                    if let Ok(Ok((DecapStatus::CompletedPkt(b, _), _))) = r {
                        let _ = dec.memory.provision_storage(b);
                    }
                }
                Ok(Ok((DecapStatus::Padding, _))) => return st.violation("reads-as-padding", format!("emitted packet {} reads as padding", hex(pkt))),
                Ok(Err(_)) => {
                    // explicit re-use without remembered label, trains abandoned by the schedule, ... not this property's subject
                    st.class("decap-rejected");
                    if !p.start {
                        train_label.remove(&s.frag_id);
                    }
                }
            }
        }
    }
    st.class_if(n_pk > 0, "has-packets");
    if nontrivial || n_pk > 0 {
        st.nontrivial(hash_of(c));
    }
    st.sample(|| json!({"sends": c.send.sends.len(), "packets": n_pk, "tail_len": c.tail.len()}));
    Ok(())
}

// ---- enumerated: every fragment id x every label value class ---------------------------------------------

fn sweep_labels() -> Vec<(Lab, bool)> {
    // (label, send a packet to the same label first so that the swept one is substituted)
    let mut v: Vec<(Lab, bool)> = vec![];
    v.extend(ALPHA6.iter().map(|b| (Lab::Six(*b), false)));
    v.extend(SPECIAL6.iter().map(|b| (Lab::Six(*b), false)));
    v.extend(ALPHA3.iter().map(|b| (Lab::Three(*b), false)));
    v.extend(SPECIAL3.iter().map(|b| (Lab::Three(*b), false)));
    v.push((Lab::Broadcast, false));
    v.push((Lab::Six(ALPHA6[0]), true));
    v.push((Lab::Three(SPECIAL3[0]), true));
    v
}

fn sweep_case(i: u64) -> Case {
    let labels = sweep_labels();
    let nl = labels.len() as u64;
    let frag_id = (i % 256) as u8;
    let (lab, primed) = labels[((i / 256) % nl) as usize];
    let shape = i / 256 / nl; // 0 complete, 1 complete + ext, 2 fragmented, 3 fragmented + ext
    let exts = if shape % 2 == 1 { vec![ExtSpec { id: 0x0203, data: vec![0xE1, 0xE2] }, ExtSpec { id: 0x0100, data: vec![] }] } else { vec![] };
    let one = |len: u32, first: BufSpec, exts: Vec<ExtSpec>| SendOne { pdu: Pdu { len, seed: 3 + len + frag_id as u32 }, lab, ptype: 0x86DD, frag_id, exts, first, conts: vec![], tail_base: 31, tail_span: 1, handmade: None };
    let mut sends = vec![];
    if primed {
        sends.push(one(4, BufSpec::Abs(64), vec![]));
    }
    sends.push(if shape < 2 { one(10, BufSpec::Abs(200), exts) } else { one(100, BufSpec::Abs(40), exts) });
    Case { send: SendCase { reuse: ReuseCfg::Enabled, sends }, tail: vec![frag_id ^ 0xFF, 0x00, 0xC0, frag_id], slots: [0u8, 1, 3][(i % 3) as usize], merge: vec![] }
}

fn check_sweep(i: u64, st: &mut Stats) -> Result<(), String> {
    check(&sweep_case(i), st)
}

pub fn property() -> Property {
    Property {
        id: "C19",
        rule: "every packet emitted by sender sessions (encap / encap_frag / encap_ext, all label kinds incl. substituted and explicit re-use, extension chains, buffers 0..=70000) is peeked alone and followed by 1..64 random bytes, then decapsulated (followed by those bytes). oracle: peek result identical alone and followed; FragId(sender's id) for S=0 packets, Lbl(label on the wire) for start/complete packets with 3/6-byte or broadcast label also with extensions, ErrLabelReuse for re-use packets; the label equals the one decap reports for the same bytes, and for S=0 packets the context decap advanced is the one opened under the peeked id. non-trivial = session that emitted packets; classes report extension-bearing and re-use packets",
        assumptions: &["packets come from the real encapsulator; RefCodec tells what is on the wire"],
        parts: vec![Box::new(EnumPart {
            name: "every-frag-id-x-label-value",
            rule: "every fragment id 0..=255 x every label of the alphabets and of the special-value lists (all-ones, one bit short of all-ones, zero head / tail, single top bit, ...), broadcast, substituted 6-byte and 3-byte labels x {complete, complete + extensions, 4 fragments, 4 fragments + extensions}, receivers of 256 / 1 / 3 slots; exhaustive; same oracle",
            size: |_| 256 * sweep_labels().len() as u64 * 4,
            exhaustive: |_| true,
            check: check_sweep,
            describe: |_t, i| serde_json::to_value(sweep_case(i)).unwrap_or(Value::Null),
            required_classes: &["frag-id", "label", "reuse-error", "packet-with-extensions", "has-packets", "few-slots"],
        }), Box::new(GenPart {
            name: "peek-vs-decap",
            rule: "see property rule",
            cases: (360_000, 9_000_000),
            fuzz_decode: Some(crate::fuzzdec::c19_case),
            strategy,
            check,
            required_classes: &["frag-id", "label", "reuse-error", "packet-with-extensions", "has-packets", "few-slots", "interleaved-sends"],
        })],
    }
}
