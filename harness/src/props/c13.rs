//! C13 — extension-header chains round-trip; unknown mandatory extensions cause a drop;
//! the extension constructor accepts exactly the valid (id, data length) pairs.

use super::sender::ext_chain;
use crate::common::*;
use crate::engine::{bx, guard, hash_of, EnumPart, GenPart, Property, Stats, Tier};
use crate::oracle::refcodec::{self, Mand, Parsed};
use dvb_gse_rust::gse_decap::DecapStatus;
use dvb_gse_rust::gse_encap::EncapStatus;
use dvb_gse_rust::header_extension::{Extension, ExtensionData};
use proptest::prelude::*;
use serde::{Deserialize, Serialize};
use serde_json::{json, Value};

pub fn ext_bytes(e: &Extension) -> (u16, Vec<u8>) {
    let d = match e.data() {
        ExtensionData::Data2(a) => a.to_vec(),
        ExtensionData::Data4(a) => a.to_vec(),
        ExtensionData::Data6(a) => a.to_vec(),
        ExtensionData::Data8(a) => a.to_vec(),
        ExtensionData::NoData => vec![],
        ExtensionData::MandatoryData(v) => v.clone(),
    };
    (e.id(), d)
}

// ---- part 1: the constructor, exhaustively -------------------------------------------------------

fn check_ctor(i: u64, st: &mut Stats) -> Result<(), String> {
    let id = (i / 11) as u16;
    let n = (i % 11) as usize;
    let data: Vec<u8> = (0..n).map(|k| (k as u8).wrapping_mul(29).wrapping_add(id as u8)).collect();
    // RFC 5163 / TS 102 606: H-LEN 1..5 => 0,2,4,6,8 data bytes; H-LEN 0 => mandatory (any length); >= 0x0600 is a protocol type
    let valid = id < 0x0600 && (id < 0x0100 || n == [0usize, 0, 2, 4, 6, 8][(id >> 8) as usize]);
    match guard(|| Extension::new(id, &data)) {
        Err(p) => return st.violation(&format!("ctor-panic {}", p.site()), format!("Extension::new({:#06x}, {} bytes) panicked: {}", id, n, p.0)),
        Ok(Ok(e)) => {
            st.class("accepted");
            st.nontrivial_distinct(1);
            if !valid {
                return st.violation("ctor-accepts-invalid", format!("Extension::new({:#06x}, {} bytes) succeeded", id, n));
            }
            let (eid, ed) = ext_bytes(&e);
            if eid != id || ed != data || e.len() != 2 + n {
                return st.violation("ctor-value", format!("Extension::new({:#06x}, {:?}) reports id {:#06x}, data {:?}, len {}", id, data, eid, ed, e.len()));
            }
        }
        Ok(Err(_)) => {
            st.class("rejected");
            if valid {
                return st.violation("ctor-rejects-valid", format!("Extension::new({:#06x}, {} bytes) failed", id, n));
            }
        }
    }
    Ok(())
}

// ---- part 2: chains end to end ----------------------------------------------------------------------

#[derive(Clone, Debug, PartialEq, Eq, Hash, Serialize, Deserialize)]
pub struct Case {
    pub lab: Lab,
    /// None: the protocol type is the id of the final mandatory extension (last of the chain)
    pub user_ptype: Option<u16>,
    pub pdu: Pdu,
    pub exts: Vec<ExtSpec>,
    pub frag_id: u8,
    pub first: BufSpec,
    pub cont_buf: u16,
    pub storage_extra: u16,
    /// which mandatory ids of the harness table the receiver knows (bit mask); u32::MAX = all
    pub mgr_mask: u32,
    /// send a complete packet with the same label first (both sides), so that the extension-bearing
    /// packet goes out with a substituted re-use label
    #[serde(default)]
    pub prime_same_label: bool,
    /// 1: a complete packet with ANOTHER label is sent first and, after the extension-bearing PDU
    /// has been delivered, a plain packet with that other label follows and must keep its label;
    /// 2: the follow-up packet carries the extension PDU's own label
    #[serde(default)]
    pub follow_up: u8,
}

fn chain_strategy(t: Tier) -> BoxedStrategy<Case> {
    let max = t.pick(4usize, 7usize);
    let pe = prop_oneof![
        3 => (ptype_user(), prop::collection::vec(prop_oneof![3 => ext_optional(), 1 => ext_mand_nonfinal()], 1..=max)).prop_map(|(p, v)| (Some(p), v)),
        2 => ext_chain(true).prop_map(|v| (None, v)),
    ];
    let first = prop_oneof![
        4 => (-4i32..=60).prop_map(BufSpec::HdrPlus),
        3 => (-6i32..=4).prop_map(BufSpec::FitPlus),
        1 => (4098u32..=20000).prop_map(BufSpec::Abs),
        1 => (13u32..=4097).prop_map(BufSpec::Abs),
    ];
    let plen = prop_oneof![3 => 0u32..=40, 3 => 40u32..=600, 1 => 600u32..=5000, 1 => 4050u32..=4100];
    let mask = prop_oneof![3 => Just(u32::MAX), 2 => any::<u32>(), 1 => Just(0u32)];
    bx((lab_any_valid(), pe, (plen, pdu_seed()), any::<u8>(), first, 7u16..=600, prop_oneof![2 => Just(0u16), 1 => 1u16..500], mask, (prop_oneof![2 => Just(false), 1 => Just(true)], prop_oneof![2 => Just(0u8), 1 => Just(1u8), 1 => Just(2u8)])).prop_map(
        |(lab, (user_ptype, exts), (len, seed), frag_id, first, cont_buf, storage_extra, mgr_mask, (prime_same_label, follow_up))| Case { lab, user_ptype, pdu: Pdu { len, seed }, exts, frag_id, first, cont_buf, storage_extra, mgr_mask, prime_same_label, follow_up },
    ))
}

fn check_chain(c: &Case, st: &mut Stats) -> Result<(), String> {
    let pdu = c.pdu.bytes();
    let final_mand = c.user_ptype.is_none();
    let ptype = c.user_ptype.unwrap_or_else(|| c.exts.last().unwrap().id);
    let ext_area: usize = c.exts.iter().enumerate().map(|(i, e)| e.data.len() + if i > 0 { 2 } else { 0 }).sum::<usize>() + if final_mand { 0 } else { 2 };
    let mut enc = new_enc();
    let mgr = TableManager { mask: c.mgr_mask };
    let storage = pdu.len() + c.storage_extra as usize;
    let mut dec = new_simple_dec(4, 0, &[storage], mgr);
    // explicit re-use needs a remembered label on both sides
    let mut expect_label = c.lab;
    if c.lab == Lab::ReUse {
        let l = Lab::Three([5, 5, 5]);
        let mut b = vec![0u8; 32];
        match call_encap(&mut enc, b"p", 0, 0x0800, l, &mut b) {
            Ok(Ok(EncapStatus::CompletedPkt(n))) => {
                let _ = dec.provision_storage(vec![0u8; 8].into_boxed_slice());
                // the small buffer is on top of the free list
                match call_decap(&mut dec, &b[..n as usize]) {
                    Ok(Ok((DecapStatus::CompletedPkt(..), _))) => {}
                    o => return st.violation("prime-failed", format!("priming packet: {}", show_dec(&o))),
                }
            }
            o => return st.violation("prime-failed", format!("priming encap: {:?}", o.map_err(|p| p.0))),
        }
        expect_label = l;
    }
    let other = Lab::Three([0x0F, 0x0E, 0x0D]);
    let prime_with = if c.follow_up == 1 && c.lab != Lab::ReUse { Some(other) } else if c.prime_same_label && c.lab.is_addr() { Some(c.lab) } else { None };
    if let Some(pl) = prime_with {
        let mut b = vec![0u8; 32];
        match call_encap(&mut enc, b"p", 0, 0x0800, pl, &mut b) {
            Ok(Ok(EncapStatus::CompletedPkt(n))) => {
                let _ = dec.provision_storage(vec![0u8; 8].into_boxed_slice());
                match call_decap(&mut dec, &b[..n as usize]) {
                    Ok(Ok((DecapStatus::CompletedPkt(..), _))) => st.class(if pl == c.lab { "primed-with-same-label" } else { "primed-with-other-label" }),
                    o => return st.violation("prime-failed", format!("priming packet: {}", show_dec(&o))),
                }
            }
            o => return st.violation("prime-failed", format!("priming encap: {:?}", o.map_err(|p| p.0))),
        }
    }
    let blen = c.first.first(pdu.len(), c.lab.len(), ext_area);
    let mut exts = vec![];
    for e in &c.exts {
        match e.build() {
            Ok(x) => exts.push(x),
            Err(m) => return st.violation("ext-build", m),
        }
    }
    let mut buf = vec![0u8; blen];
    let r = match call_encap_ext(&mut enc, &pdu, c.frag_id, ptype, c.lab, &mut buf, exts) {
        Ok(r) => r,
        Err(p) => return st.violation(&format!("panic {}", p.site()), format!("encap_ext panicked: {}", p.0)),
    };
    let desc = format!("encap_ext(pdu {} bytes, {:?}, ptype {:#06x}, exts {:?}, buffer {})", pdu.len(), c.lab, ptype, c.exts.iter().map(|e| (e.id, e.data.len())).collect::<Vec<_>>(), blen);
    let (n, mut ctx) = match r {
        Err(_) => {
            st.class("encap_ext-err");
            return Ok(());
        }
        Ok(EncapStatus::CompletedPkt(n)) => (n as usize, None),
        Ok(EncapStatus::FragmentedPkt(n, cx)) => (n as usize, Some(cx)),
    };
    if n > blen || n < 2 {
        return st.violation("bad-length", format!("{} reported length {}", desc, n));
    }
    // reported length is the on-wire length
    let wire = (u16::from_be_bytes([buf[0], buf[1]]) & 0x0FFF) as usize + 2;
    if wire != n {
        return st.violation("length-not-on-wire", format!("{} returned {}, the header announces {} bytes", desc, n, wire));
    }
    match refcodec::parse(&buf[..n], &mand_lookup) {
        Ok(Parsed::Packet(p, used)) if used == n => {
            let want: Vec<(u16, Vec<u8>)> = c.exts.iter().map(|e| (e.id, e.data.clone())).collect();
            if p.exts != want || p.ptype != Some(ptype) {
                return st.violation("wire-exts", format!("{}: on the wire exts {:?} ptype {:?}", desc, p.exts, p.ptype));
            }
        }
        o => return st.violation("unparsable", format!("{}: emitted bytes do not parse: {:?}", desc, o.map(|_| ()))),
    }
    let mut packets = vec![buf[..n].to_vec()];
    let mut guard_n = 0;
    while let Some(cx) = ctx {
        guard_n += 1;
        if guard_n > 10_000 {
            return st.violation("no-completion", format!("{}: train does not finish", desc));
        }
        let mut b = vec![0u8; c.cont_buf as usize];
        match call_encap_frag(&enc, &pdu, &cx, &mut b) {
            Ok(Ok(EncapStatus::CompletedPkt(n))) => {
                packets.push(b[..n as usize].to_vec());
                ctx = None;
            }
            Ok(Ok(EncapStatus::FragmentedPkt(n, c2))) => {
                packets.push(b[..n as usize].to_vec());
                ctx = Some(c2);
            }
            o => return st.violation("continuation-failed", format!("{}: encap_frag with a {}-byte buffer: {:?}", desc, c.cont_buf, o.map_err(|p| p.0))),
        }
    }
    let fragmented = packets.len() > 1;
    st.class(if fragmented { "fragmented" } else { "complete" });
    let unknown: Option<u16> = c.exts.iter().map(|e| e.id).find(|id| *id < 0x100 && matches!(mgr.lookup(*id), Mand::Unknown));
    let has_mand_data = c.exts.iter().any(|e| e.id < 0x100 && !e.data.is_empty());
    if c.exts.len() >= 2 || has_mand_data || fragmented || (c.mgr_mask != u32::MAX && c.mgr_mask != 0) {
        st.nontrivial(hash_of(c));
    }
    st.class_if(final_mand, "final-mandatory");
    st.class_if(c.storage_extra == 0, "storage==pdu");
    st.sample(|| json!({"call": desc, "packets": packets.iter().map(|p| p.len()).collect::<Vec<_>>(), "receiver_unknown_mandatory": unknown}));
    if let Some(uid) = unknown {
        st.class("receiver-does-not-know-a-mandatory-id");
        let p0 = &packets[0];
        // followed by other bytes, to check the consumed length
        let mut framed = p0.clone();
        framed.extend_from_slice(&[0xE0, 0x02, 0x08, 0x00]);
        return match call_decap(&mut dec, &framed) {
            // the property names no error kind: any rejection consuming exactly the packet
            Ok(Err((_, used))) if used == p0.len() => Ok(()),
            o => st.violation("unknown-mandatory-not-dropped", format!("{}: receiver does not know {:#06x}; decap -> {} (packet is {} bytes)", desc, uid, show_dec(&o), p0.len())),
        };
    }
    st.class("receiver-knows-all");
    for (i, p) in packets.iter().enumerate() {
        let r = call_decap(&mut dec, p);
        let last = i + 1 == packets.len();
        match &r {
            Err(pn) => return st.violation(&format!("panic {}", pn.site()), format!("{}: decap of packet {} panicked: {}", desc, i, pn.0)),
            Ok(Ok((DecapStatus::FragmentedPkt(md), used))) if !last && *used == p.len() => {
                if i == 0 {
                    let got: Vec<(u16, Vec<u8>)> = md.extensions().iter().map(ext_bytes).collect();
                    let want: Vec<(u16, Vec<u8>)> = c.exts.iter().map(|e| (e.id, e.data.clone())).collect();
                    if got != want || md.protocol_type() != ptype || Lab::of(&md.label()) != expect_label {
                        return st.violation("first-fragment-metadata", format!("{}: first fragment reports exts {:?} ptype {:#06x} label {:?}", desc, got, md.protocol_type(), md.label()));
                    }
                }
            }
            Ok(Ok((DecapStatus::CompletedPkt(b, md), used))) if last && *used == p.len() => {
                let got: Vec<(u16, Vec<u8>)> = md.extensions().iter().map(ext_bytes).collect();
                let want: Vec<(u16, Vec<u8>)> = c.exts.iter().map(|e| (e.id, e.data.clone())).collect();
                if got != want {
                    return st.violation("exts-differ", format!("{}: delivered extensions {:?}", desc, got));
                }
                if md.protocol_type() != ptype || Lab::of(&md.label()) != expect_label {
                    return st.violation("metadata-differs", format!("{}: delivered ptype {:#06x} label {:?} (expected {:?})", desc, md.protocol_type(), md.label(), expect_label));
                }
                if md.pdu_len() != pdu.len() || b.len() < pdu.len() || b[..pdu.len()] != pdu[..] {
                    return st.violation("pdu-differs", format!("{}: delivered pdu_len {}", desc, md.pdu_len()));
                }
            }
            o => return st.violation("receiver-outcome", format!("{}: packet {}/{} ({}) with storage {} -> {}", desc, i + 1, packets.len(), hex(p), storage, show_dec(o))),
        }
    }
    // follow-up: the label memories of both sides must have moved with the extension-bearing packet
    if c.follow_up != 0 && c.lab != Lab::ReUse {
        let fl = if c.follow_up == 1 { other } else { c.lab };
        let mut b = vec![0u8; 64];
        let _ = dec.provision_storage(vec![0u8; 16].into_boxed_slice());
        match call_encap(&mut enc, b"follow", 1, 0x0800, fl, &mut b) {
            Ok(Ok(EncapStatus::CompletedPkt(n))) => match call_decap(&mut dec, &b[..n as usize]) {
                Ok(Ok((DecapStatus::CompletedPkt(_, md), _))) if Lab::of(&md.label()) == fl => st.class("follow-up-packet"),
                o => return st.violation("follow-up-mis-attributed", format!("{}: the following plain packet sent with {:?} (wire {}) -> {}", desc, fl, hex(&b[..n as usize]), show_dec(&o))),
            },
            o => return st.violation("follow-up-failed", format!("{}: follow-up encap: {:?}", desc, o.map_err(|p| p.0))),
        }
    }
    Ok(())
}

// ---- part 3: combinations that cannot be encoded decodably must be refused -------------------------

#[derive(Clone, Debug, PartialEq, Eq, Hash, Serialize, Deserialize)]
pub struct BadCase {
    pub lab: Lab,
    pub ptype: u16,
    pub exts: Vec<ExtSpec>,
    pub pdu_len: u16,
    pub buf: u16,
}

fn bad_strategy(_t: Tier) -> BoxedStrategy<BadCase> {
    let any_ext = prop_oneof![3 => ext_optional(), 2 => ext_mand_nonfinal(), 2 => ext_mand_final()];
    bx((lab_any_valid(), prop_oneof![3 => 0u16..0x100, 1 => Just(0x0081u16), 1 => Just(0x0090u16)], prop::collection::vec(any_ext, 1..=4), 0u16..200, 13u16..600)
        .prop_filter("last extension must NOT be the final mandatory extension announced by the protocol type", |(_, p, v, _, _)| v.last().unwrap().id != *p)
        .prop_map(|(lab, ptype, exts, pdu_len, buf)| BadCase { lab, ptype, exts, pdu_len, buf }))
}

fn check_bad(c: &BadCase, st: &mut Stats) -> Result<(), String> {
    let pdu = pdu_bytes(c.pdu_len as usize, 3);
    let mut enc = new_enc();
    let mut exts = vec![];
    for e in &c.exts {
        match e.build() {
            Ok(x) => exts.push(x),
            Err(m) => return st.violation("ext-build", m),
        }
    }
    let mut buf = vec![0u8; c.buf as usize];
    let last_is_mand = c.exts.last().unwrap().id < 0x100;
    st.class(if last_is_mand { "last-ext-mandatory-other-id" } else { "last-ext-optional" });
    st.nontrivial(hash_of(c));
    st.sample(|| json!({"ptype": c.ptype, "exts": c.exts.iter().map(|e| format!("{:#06x}+{}", e.id, e.data.len())).collect::<Vec<_>>()}));
    match call_encap_ext(&mut enc, &pdu, 1, c.ptype, c.lab, &mut buf, exts) {
        Err(p) => st.violation(&format!("panic {}", p.site()), format!("encap_ext panicked: {}", p.0)),
        Ok(Err(_)) => Ok(()),
        Ok(Ok(s)) => st.violation(
            "ok-for-undecodable-combination",
            format!("encap_ext(ptype {:#06x} < 0x0100, exts {:?}) -> {:?}: the protocol type announces a final mandatory extension that is not the last extension, the receiver cannot recover the protocol type", c.ptype, c.exts.iter().map(|e| e.id).collect::<Vec<_>>(), s),
        ),
    }
}

pub fn property() -> Property {
    Property {
        id: "C13",
        rule: "constructor: all 65536 ids x data lengths 0..=10 (exhaustive): Ok iff id < 0x0600 and (id < 0x0100 or length == H-LEN table), values reported faithfully, never a panic. chains: 1..4 (thorough ..7) extensions from every optional H-LEN class and known non-final mandatory ids, optionally closed by a final mandatory extension whose id is the protocol type; every label kind; first buffers from 4 bytes below the header+extension area up to exact fit +4 and beyond 4097, so that fragmentation falls at every offset; receiver storage == PDU length or larger; managers knowing all / a random subset / none of the mandatory ids. oracle: reported length == on-wire length; RefCodec sees the chain; a receiver knowing all mandatory ids recovers the same ordered extension list, protocol type, label and PDU (complete or reassembled); a receiver not knowing one rejects the start packet with ErrorUnkownMandatoryHeader consuming exactly the packet. undecodable combinations (protocol type < 0x0100 whose last extension is not that final mandatory extension) must be refused. non-trivial = chain of >= 2, mandatory extension with data, fragmented transfer, or partially knowing manager",
        assumptions: &["mandatory extension sizes come from a harness table shared by the generator, RefCodec and the receiver's manager"],
        parts: vec![
            Box::new(EnumPart {
                name: "constructor-all-ids-x-lengths",
                rule: "65536 ids x 11 lengths",
                size: |_| 65536 * 11,
                exhaustive: |_| true,
                check: check_ctor,
                describe: |_t, i| json!({"id": format!("{:#06x}", i / 11), "data_len": i % 11}),
                required_classes: &["accepted", "rejected"],
            }),
            Box::new(GenPart {
                name: "chains-end-to-end",
                rule: "see property rule",
                cases: (1_200_000, 25_000_000),
                fuzz_decode: Some(crate::fuzzdec::c13_case),
                strategy: chain_strategy,
                check: check_chain,
                required_classes: &["fragmented", "complete", "final-mandatory", "storage==pdu", "receiver-does-not-know-a-mandatory-id", "receiver-knows-all", "primed-with-same-label", "primed-with-other-label", "follow-up-packet"],
            }),
            Box::new(GenPart {
                name: "undecodable-combinations",
                rule: "protocol type < 0x0100 with a chain not closed by that final mandatory extension",
                cases: (360_000, 5_000_000),
                fuzz_decode: None,
                strategy: bad_strategy,
                check: check_bad,
                required_classes: &["last-ext-optional", "last-ext-mandatory-other-id"],
            }),
        ],
    }
}

#[allow(dead_code)]
fn _desc(_: u64) -> Value {
    Value::Null
}
