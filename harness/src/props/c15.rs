//! C15 — label re-use policy bounds are respected.

use crate::common::*;
use crate::engine::{bx, hash_of, EnumPart, GenPart, Property, Stats, Tier};
use dvb_gse_rust::gse_encap::EncapStatus;
use proptest::prelude::*;
use serde::{Deserialize, Serialize};
use serde_json::{json, Value};

#[derive(Clone, Copy, Debug, PartialEq, Eq, Hash, Serialize, Deserialize)]
pub enum Op {
    /// successful start/complete packet; mode 0 = encap complete, 1 = encap first fragment, 2 = encap_ext complete
    Send { lab: Lab, mode: u8 },
    /// n successful complete packets with the same label
    Burst { lab: Lab, n: u16 },
    /// failing call: emits nothing.  long = false: buffer too small; long = true: PDU too long for
    /// the 16-bit total length (a 65534-byte PDU with a 3/6-byte label, ample buffer)
    Fail {
        lab: Lab,
        #[serde(default)]
        long: bool,
    },
    Reset,
    Disable,
    Enable,
    Max(u8),
}

pub const A6: Lab = Lab::Six([2, 0, 0, 0, 0, 1]);
pub const B6: Lab = Lab::Six([2, 0, 0, 0, 0, 2]);
pub const A3: Lab = Lab::Three([0xAA, 0xBB, 0xCC]);
pub const B3: Lab = Lab::Three([0, 0, 0]);

struct Audit {
    disabled: bool,
    max: u8,
    run: u32,
    must_full: bool,
    eff: Option<Lab>,
    subs: u32,
    disturbance: bool,
    emitted: u32,
}

fn run_ops(ops: &[Op], st: &mut Stats) -> Result<bool, String> {
    let mut enc = new_enc();
    let mut a = Audit { disabled: false, max: 0, run: 0, must_full: true, eff: None, subs: 0, disturbance: false, emitted: 0 };
    let pdu_small = [0x42u8];
    let pdu_big = [0x17u8; 64];
    for (i, op) in ops.iter().enumerate() {
        let (lab, mode, reps) = match *op {
            Op::Send { lab, mode } => (lab, mode, 1u32),
            Op::Burst { lab, n } => (lab, 0, n as u32),
            Op::Fail { lab, long } => {
                a.disturbance = true;
                let r = if long && lab.is_addr() {
                    static LONG: std::sync::OnceLock<Vec<u8>> = std::sync::OnceLock::new();
                    let pdu = LONG.get_or_init(|| vec![0x3Cu8; 65534]);
                    let mut b = [0u8; 64];
                    st.class("failed-call-pdu-too-long");
                    call_encap(&mut enc, pdu, 1, 0x0800, lab, &mut b)
                } else {
                    let mut b = [0u8; 3];
                    call_encap(&mut enc, &pdu_small, 1, 0x0800, lab, &mut b)
                };
                match r {
                    Ok(Err(_)) => {}
                    o => return st.violation("fail-op-did-not-fail", format!("ops {:?} #{}: failing encap: {:?}", ops, i, o.map_err(|p| p.0))).map(|_| false),
                }
                continue;
            }
            Op::Reset => {
                enc.reset_last_label();
                a.must_full = true;
                a.eff = None;
                a.disturbance = true;
                continue;
            }
            Op::Disable => {
                enc.disable_re_use_label();
                a.disabled = true;
                a.max = 0;
                a.run = 0;
                a.disturbance = true;
                continue;
            }
            Op::Enable => {
                enc.enable_re_use_label();
                a.disabled = false;
                a.max = 0;
                a.run = 0;
                a.disturbance = true;
                continue;
            }
            Op::Max(n) => {
                enc.enable_re_use_label_with_max_consecutive(n);
                a.disabled = false;
                a.max = n;
                a.run = 0;
                a.disturbance = true;
                continue;
            }
        };
        for rep in 0..reps {
            let mut b = [0u8; 100];
            let r = match mode {
                1 => call_encap(&mut enc, &pdu_big, 1, 0x0800, lab, &mut b[..20]),
                2 => {
                    let e = ExtSpec { id: 0x0123, data: vec![] }.build()?;
                    call_encap_ext(&mut enc, &pdu_small, 1, 0x0800, lab, &mut b, vec![e])
                }
                _ => call_encap(&mut enc, &pdu_small, 1, 0x0800, lab, &mut b),
            };
            let n = match r {
                Ok(Ok(EncapStatus::CompletedPkt(n))) | Ok(Ok(EncapStatus::FragmentedPkt(n, _))) => n as usize,
                o => return st.violation("send-failed", format!("ops {:?} #{} rep {}: {:?}", ops, i, rep, o.map_err(|p| p.0))).map(|_| false),
            };
            a.emitted += 1;
            let lt = (b[0] >> 4) & 3;
            let off = if b[0] & 0x40 != 0 { 4 } else { 7 };
            let wire_label = Lab::from_wire(lt, &b[off..(off + if lt == 0 { 6 } else if lt == 1 { 3 } else { 0 }).min(n.max(off))]);
            let ctx = || format!("ops {:?}: op #{} rep {} passed {:?}, emitted label type {:02b}", ops, i, rep, lab, lt);
            let substituted = lab.is_addr() && lt == 3;
            if lab.is_addr() && !substituted && wire_label != lab {
                st.violation("wrong-label-written", format!("{}: wrote {:?}", ctx(), wire_label))?;
            }
            if !lab.is_addr() && lt != lab.lt() {
                st.violation("wrong-label-type", ctx())?;
            }
            if a.disabled && lt != lab.lt() {
                st.violation("substitution-while-disabled", ctx())?;
            }
            if substituted {
                a.subs += 1;
                a.run += 1;
                if a.max >= 1 && a.run > a.max as u32 {
                    st.violation("more-than-max-consecutive", format!("{}: {} consecutive substituted packets with max {}", ctx(), a.run, a.max))?;
                }
                if a.must_full {
                    st.violation("substitution-after-reset-or-broadcast", format!("{}: first addressed packet after a reset / broadcast went out as re-use", ctx()))?;
                }
                if a.eff != Some(lab) {
                    st.violation("substitution-for-different-label", format!("{}: the preceding start/complete packet effectively carried {:?}", ctx(), a.eff))?;
                }
                if a.max as u32 >= 200 && a.run >= 200 {
                    st.class("run>=200-under-max>=200");
                }
            } else {
                match lt {
                    0 | 1 => {
                        a.eff = Some(wire_label);
                        a.must_full = false;
                        a.run = 0;
                    }
                    2 => {
                        a.eff = None;
                        a.must_full = true;
                        a.run = 0;
                        a.disturbance = true;
                    }
                    _ => {} // explicit re-use passed by the caller: not the policy's decision
                }
            }
        }
    }
    st.class_if(a.subs > 0, "has-substitution");
    Ok(a.subs > 0 && a.disturbance)
}

// ---- enumerated ------------------------------------------------------------------------------------

fn alphabet(d: u64) -> Op {
    match d {
        0 => Op::Send { lab: A6, mode: 0 },
        1 => Op::Send { lab: B6, mode: 0 },
        2 => Op::Send { lab: A3, mode: 0 },
        3 => Op::Send { lab: B3, mode: 0 },
        4 => Op::Send { lab: Lab::Broadcast, mode: 0 },
        5 => Op::Send { lab: Lab::ReUse, mode: 0 },
        6 => Op::Fail { lab: A6, long: false },
        7 => Op::Fail { lab: B6, long: false },
        8 => Op::Reset,
        9 => Op::Disable,
        10 => Op::Enable,
        11 => Op::Max(1),
        12 => Op::Max(2),
        13 => Op::Max(255),
        _ => Op::Fail { lab: B6, long: true },
    }
}

fn depth(t: Tier) -> u32 {
    t.pick(6, 7)
}

fn enum_decode(t: Tier, mut i: u64) -> Vec<Op> {
    let mut v = vec![];
    for _ in 0..depth(t) {
        v.push(alphabet(i % 15));
        i /= 15;
    }
    v
}

fn check_enum(i: u64, st: &mut Stats) -> Result<(), String> {
    let ops = enum_decode(st.tier, i);
    if run_ops(&ops, st)? {
        st.nontrivial_distinct(1);
    }
    Ok(())
}

fn desc_enum(t: Tier, i: u64) -> Value {
    json!({"ops": format!("{:?}", enum_decode(t, i))})
}

// ---- generated ---------------------------------------------------------------------------------------

#[derive(Clone, Debug, PartialEq, Eq, Hash, Serialize, Deserialize)]
pub struct RandCase {
    pub ops: Vec<Op>,
}

fn rand_strategy(t: Tier) -> BoxedStrategy<RandCase> {
    // besides the four alphabet labels: labels that a partial or numeric comparison would confuse with them
    // (same tail as A6 / same bytes as A3 behind three zero bytes / A6's first three bytes)
    let lab = prop_oneof![6 => Just(A6), 4 => Just(B6), 4 => Just(A3), 2 => Just(B3), 2 => Just(Lab::Broadcast), 2 => Just(Lab::ReUse), 1 => Just(Lab::Six([6, 1, 0, 0, 0, 1])), 1 => Just(Lab::Six([0, 0, 0, 0xAA, 0xBB, 0xCC])), 1 => Just(Lab::Three([2, 0, 0]))];
    let op = prop_oneof![
        8 => (lab.clone(), 0u8..3).prop_map(|(lab, mode)| Op::Send { lab, mode }),
        3 => (lab.clone(), prop_oneof![2 => 2u16..8, 1 => 200u16..300]).prop_map(|(lab, n)| Op::Burst { lab, n }),
        3 => (lab, any::<bool>()).prop_map(|(lab, long)| Op::Fail { lab, long }),
        1 => Just(Op::Reset),
        1 => Just(Op::Disable),
        1 => Just(Op::Enable),
        2 => prop_oneof![2 => 0u8..4, 1 => any::<u8>(), 1 => 250u8..=255].prop_map(Op::Max),
    ];
    bx(prop::collection::vec(op, 1..t.pick(40, 120)).prop_map(|ops| RandCase { ops }))
}

fn check_rand(c: &RandCase, st: &mut Stats) -> Result<(), String> {
    if run_ops(&c.ops, st)? {
        st.nontrivial(hash_of(c));
    }
    st.sample(|| json!({"ops": format!("{:?}", c.ops)}));
    Ok(())
}

pub fn property() -> Property {
    Property {
        id: "C15",
        rule: "enumerated: every history of depth 6 (quick) / 7 (thorough) over 15 operations {successful encap with A6, B6, A3, B3, broadcast, explicit re-use; failing encap with A6 / B6 (buffer too small) and B6 (PDU too long); reset; disable; enable; enable-with-max 1, 2, 255}; generated: histories of up to 40/120 operations incl. bursts of 200..300 equal labels (so 255 consecutive re-uses and the counter at 255 are reached), max N in 0..=255, encap complete / first fragment / encap_ext mixed. oracle on the emitted start/complete packets (label type read from the wire): no substitution while disabled; never more than N consecutive substituted packets (N >= 1; audit counter reset at every settings change); first addressed packet after a reset or an emitted broadcast packet carries its full label; a substitution only when the preceding emitted start/complete packet effectively carried the identical label. non-trivial = history with >= 1 substitution and >= 1 of {failed call, settings change, reset, broadcast}",
        assumptions: &["a packet for which the caller passed Label::ReUse is the caller's decision: neither counted in a run nor ending it"],
        parts: vec![
            Box::new(EnumPart {
                name: "all-histories-bounded-depth",
                rule: "15^depth histories",
                size: |t| 15u64.pow(depth(t)),
                exhaustive: |_| true,
                check: check_enum,
                describe: desc_enum,
                required_classes: &["has-substitution", "failed-call-pdu-too-long"],
            }),
            Box::new(GenPart {
                name: "random-long-histories",
                rule: "see property rule",
                cases: (600_000, 10_000_000),
                fuzz_decode: Some(crate::fuzzdec::c15_case),
                strategy: rand_strategy,
                check: check_rand,
                required_classes: &["has-substitution", "run>=200-under-max>=200"],
            }),
        ],
    }
}
