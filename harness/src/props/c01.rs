//! C01 — unfragmented round trip preserves PDU, protocol type and label.

use crate::common::*;
use crate::engine::{bx, hash_of, EnumPart, GenPart, Property, Stats, Tier};
use crate::oracle::refcodec::{self, Parsed};
use dvb_gse_rust::gse_decap::{DecapStatus, GseDecapMemory};
use dvb_gse_rust::gse_encap::EncapStatus;
use proptest::prelude::*;
use serde::{Deserialize, Serialize};
use serde_json::{json, Value};

#[derive(Clone, Debug, PartialEq, Eq, Hash, Serialize, Deserialize)]
pub struct Item {
    pub pdu: Pdu,
    pub lab: Lab,
    pub ptype: u16,
    pub frag_id: u8,
    pub buf: BufSpec,
    /// receiver storage = pdu length + extra
    pub storage_extra: u32,
    /// change the re-use setting just before this item
    #[serde(default)]
    pub set_reuse: Option<ReuseCfg>,
    /// a failing encap call with this item's label just before it: 1 = PDU too long for the
    /// 16-bit total length, 2 = buffer of 3 bytes (nothing is emitted, so nothing may change)
    #[serde(default)]
    pub failed_call_before: u8,
}

#[derive(Clone, Debug, PartialEq, Eq, Hash, Serialize, Deserialize)]
pub struct Case {
    pub reuse: ReuseCfg,
    pub items: Vec<Item>,
}

fn strategy(_t: Tier) -> BoxedStrategy<Case> {
    // lengths biased to 0, 1 and the 4093 - label limit
    let len = prop_oneof![4 => pdu_len_complete(), 3 => 4084u32..=4096];
    let buf = prop_oneof![
        4 => Just(BufSpec::FitPlus(0)),
        2 => (1i32..=8).prop_map(BufSpec::FitPlus),
        1 => (-6i32..=-1).prop_map(BufSpec::FitPlus),
        2 => (4098u32..=70000).prop_map(BufSpec::Abs),
        2 => (0u32..=4200).prop_map(BufSpec::Abs),
    ];
    let extra = prop_oneof![3 => Just(0u32), 2 => Just(1u32), 2 => 2u32..=70000];
    let lab = prop_oneof![8 => lab_addr_or_bcast(), 1 => Just(Lab::ReUse)];
    let set = prop_oneof![6 => Just(None), 1 => reuse_cfg().prop_map(Some)];
    let fail = prop_oneof![8 => Just(0u8), 1 => Just(1u8), 1 => Just(2u8)];
    let item = (len, pdu_seed(), lab, ptype_user(), any::<u8>(), buf, extra, set, fail).prop_map(|(len, seed, lab, ptype, frag_id, buf, storage_extra, set_reuse, failed_call_before)| Item { pdu: Pdu { len, seed }, lab, ptype, frag_id, buf, storage_extra, set_reuse, failed_call_before });
    bx((reuse_cfg(), prop::collection::vec(item, 1..=6)).prop_map(|(reuse, items)| Case { reuse, items }))
}

fn check(c: &Case, st: &mut Stats) -> Result<(), String> {
    let mut enc = new_enc();
    apply_reuse(&mut enc, c.reuse);
    let mut dec = new_simple_dec(256, 0, &[], TableManager::all());
    // effective label of the frame as carried by the emitted bytes (RefRx register)
    let mut eff: Option<Lab> = None;
    let mut nontrivial = false;
    for (i, it) in c.items.iter().enumerate() {
        let pdu = it.pdu.bytes();
        if let Some(cfg) = it.set_reuse {
            apply_reuse(&mut enc, cfg);
            st.class("setting-changed-mid-stream");
        }
        if it.failed_call_before != 0 {
            static LONG: std::sync::OnceLock<Vec<u8>> = std::sync::OnceLock::new();
            let long = LONG.get_or_init(|| vec![0x5Cu8; 65534]);
            let mut small = [0u8; 3];
            let mut big = vec![0u8; 64];
            let r = if it.failed_call_before == 1 { call_encap(&mut enc, long, it.frag_id, it.ptype, it.lab, &mut big) } else { call_encap(&mut enc, &pdu, it.frag_id, it.ptype, it.lab, &mut small) };
            match r {
                Ok(Err(_)) => st.class("failed-call-before-item"),
                Ok(Ok(_)) => {} // 65534 bytes + broadcast/re-use label is legal: it fragments, nothing to do
                Err(p) => return st.violation(&format!("panic {}", p.site()), format!("item {}: failing encap panicked: {}", i, p.0)),
            }
            if let Ok(Ok(EncapStatus::FragmentedPkt(n, _))) = &r {
                // keep both sides in step: the first fragment that really went out is fed to the receiver
                let n = (*n as usize).min(big.len());
                if let Ok(Parsed::Packet(p, _)) = refcodec::parse(&big[..n], &mand_lookup) {
                    match Lab::from_wire(p.lt, &p.label) {
                        l @ (Lab::Six(_) | Lab::Three(_)) => eff = Some(l),
                        Lab::Broadcast => eff = None,
                        Lab::ReUse => {}
                    }
                }
                let _ = dec.provision_storage(vec![0u8; 70000].into_boxed_slice());
                let _ = call_decap(&mut dec, &big[..n]);
                let _ = dec.memory.take_frag(it.frag_id);
            }
        }
        let blen = it.buf.first(pdu.len(), it.lab.len(), 0);
        let mut buf = vec![0u8; blen];
        let r = match call_encap(&mut enc, &pdu, it.frag_id, it.ptype, it.lab, &mut buf) {
            Ok(r) => r,
            Err(p) => return st.violation(&format!("panic {}", p.site()), format!("item {}: encap panicked: {}", i, p.0)),
        };
        let desc = format!("item {} (pdu {} bytes, {:?}, ptype {:#06x}, buffer {})", i, pdu.len(), it.lab, it.ptype, blen);
        // drain whatever the receiver still holds, then provision exactly one storage
        while dec.new_pdu().is_ok() {}
        for old in c.items[..i].iter() {
            // drop unfinished reassemblies of earlier items: their storages are not this item's
            let _ = dec.memory.take_frag(old.frag_id);
        }
        let _ = dec.memory.take_frag(it.frag_id);
        let storage = pdu.len() + it.storage_extra as usize;
        let _ = dec.provision_storage(vec![0xEEu8; storage].into_boxed_slice());
        match r {
            Ok(EncapStatus::CompletedPkt(n)) => {
                let n = n as usize;
                if n > buf.len() {
                    return st.violation("len>buffer", format!("{}: reported length {} > buffer", desc, n));
                }
                let pkt = &buf[..n];
                let p = match refcodec::parse(pkt, &mand_lookup) {
                    Ok(Parsed::Packet(p, used)) if used == n && p.start && p.end => p,
                    o => return st.violation("not-a-complete-packet", format!("{}: reported bytes are not one complete packet: {:?}", desc, o.map(|_| ()))),
                };
                let written = Lab::from_wire(p.lt, &p.label);
                let substituted = it.lab.is_addr() && written == Lab::ReUse;
                // expected label on the receiving side
                let expect_label: Option<Lab> = match it.lab {
                    Lab::ReUse => eff,
                    l => Some(l),
                };
                match written {
                    Lab::Six(_) | Lab::Three(_) => eff = Some(written),
                    Lab::Broadcast => eff = None,
                    Lab::ReUse => {}
                }
                st.class("completed");
                st.class_if(substituted, "substituted");
                st.class_if(n >= 4002, "gse_len>=4000");
                st.class_if(blen == n, "buffer==packet");
                st.class_if(it.storage_extra > 0, "storage>pdu");
                st.class_if(blen > 4097, "buffer>4097");
                st.class_if(it.lab == Lab::ReUse, "explicit-reuse");
                if substituted || n >= 4002 || blen == n || it.storage_extra > 0 || blen > 4097 {
                    nontrivial = true;
                }
                let dr = call_decap(&mut dec, pkt);
                match (&dr, expect_label) {
                    (Err(pn), _) => return st.violation(&format!("panic {}", pn.site()), format!("{}: decap panicked: {}", desc, pn.0)),
                    (Ok(Ok((DecapStatus::CompletedPkt(b, md), used))), Some(l)) => {
                        if *used != n {
                            return st.violation("consumed", format!("{}: decap consumed {} bytes, encap reported {}", desc, used, n));
                        }
                        if md.pdu_len() != pdu.len() || b.len() < pdu.len() || b[..pdu.len()] != pdu[..] {
                            return st.violation("pdu-differs", format!("{}: delivered pdu_len {} / bytes differ", desc, md.pdu_len()));
                        }
                        if md.protocol_type() != it.ptype {
                            return st.violation("ptype-differs", format!("{}: delivered protocol type {:#06x}", desc, md.protocol_type()));
                        }
                        if Lab::of(&md.label()) != l {
                            return st.violation("label-differs", format!("{}: delivered label {:?}, expected {:?} (written on the wire: {:?})", desc, md.label(), l, written));
                        }
                        if b.len() != storage {
                            return st.violation("foreign-buffer", format!("{}: delivered in a {}-byte buffer, provisioned {}", desc, b.len(), storage));
                        }
                    }
                    (Ok(Err((e, used))), None) => {
                        // explicit re-use with nothing to re-use: a re-use error is the contract
                        st.class("explicit-reuse-without-label");
                        let _ = e;
                        if *used != n {
                            return st.violation("consumed", format!("{}: rejected re-use packet consumed {} of {}", desc, used, n));
                        }
                    }
                    (o, l) => return st.violation("not-delivered", format!("{}: complete packet {} -> {} (expected label {:?})", desc, hex(pkt), show_dec(o), l)),
                }
            }
            Ok(EncapStatus::FragmentedPkt(n, _)) => {
                st.class("fragmented(not C01)");
                let n = (n as usize).min(buf.len());
                // completeness: label as written
                if n >= 2 {
                    let lw = refcodec::label_len_of_lt((buf[0] >> 4) & 3);
                    if 2 + lw + pdu.len() <= 4095 && blen >= 4 + lw + pdu.len() {
                        return st.violation("should-be-complete", format!("{}: everything fits (label written: {} bytes) but encap fragmented", desc, lw));
                    }
                    if let Ok(Parsed::Packet(p, _)) = refcodec::parse(&buf[..n], &mand_lookup) {
                        match Lab::from_wire(p.lt, &p.label) {
                            l @ (Lab::Six(_) | Lab::Three(_)) => eff = Some(l),
                            Lab::Broadcast => eff = None,
                            Lab::ReUse => {}
                        }
                    }
                }
                // keep the receiver's label memory in step
                let _ = call_decap(&mut dec, &buf[..n]);
            }
            Err(e) => {
                st.class("encap-err");
                let l = it.lab.len();
                if 2 + l + pdu.len() <= 4095 && blen >= 4 + l + pdu.len() {
                    return st.violation("should-be-complete", format!("{}: fits even with the full label but encap returned Err({:?})", desc, e));
                }
            }
        }
    }
    if nontrivial {
        st.nontrivial(hash_of(c));
    }
    st.sample(|| json!({"reuse": format!("{:?}", c.reuse), "items": c.items.iter().map(|i| json!({"pdu_len": i.pdu.len, "label": format!("{:?}", i.lab), "ptype": i.ptype, "buf": format!("{:?}", i.buf), "storage_extra": i.storage_extra})).collect::<Vec<_>>()}));
    Ok(())
}

// ---- enumerated sweeps: one dimension closed at a time ------------------------------------------------

const SWEEP_LENS: u64 = 4100; // 0..=4099: every complete-packet length and a few beyond the limit

/// labkind 0..=2: 6-byte / 3-byte / broadcast; 3: a 6-byte label sent right after a small packet
/// with the same label (re-use enabled), so that the swept packet goes out with a substituted label
fn sweep_items(labkind: u64, len: u32, ptype: u16, buf: BufSpec, storage_extra: u32) -> Case {
    let lab = match labkind {
        0 => Lab::Six(ALPHA6[0]),
        1 => Lab::Three(ALPHA3[0]),
        2 => Lab::Broadcast,
        _ => Lab::Six(ALPHA6[1]),
    };
    let main = Item { pdu: Pdu { len, seed: 3 + len }, lab, ptype, frag_id: (len % 251) as u8, buf, storage_extra, set_reuse: None, failed_call_before: 0 };
    let mut items = vec![];
    if labkind == 3 {
        items.push(Item { pdu: Pdu { len: 3, seed: 2 }, lab, ptype: 0x0800, frag_id: 0, buf: BufSpec::FitPlus(0), storage_extra: 0, set_reuse: None, failed_call_before: 0 });
    }
    items.push(main);
    Case { reuse: ReuseCfg::Enabled, items }
}

fn len_sweep_case(i: u64) -> Case {
    let len = (i % SWEEP_LENS) as u32;
    let labkind = (i / SWEEP_LENS) % 4;
    let bufkind = i / SWEEP_LENS / 4;
    // the substituted packet is 6 bytes shorter than the size FitPlus computes from the passed label
    let adj = if labkind == 3 { -6 } else { 0 };
    let buf = match bufkind {
        0 => BufSpec::FitPlus(adj),
        1 => BufSpec::FitPlus(adj + 1),
        2 => BufSpec::Abs(4098 + (len % 7) * 9001),
        _ => BufSpec::FitPlus(adj - 1),
    };
    let ptype = 0x0600 + ((len as u64 * 7919) % (0x10000 - 0x0600)) as u16;
    sweep_items(labkind, len, ptype, buf, len % 3)
}

fn check_len_sweep(i: u64, st: &mut Stats) -> Result<(), String> {
    check(&len_sweep_case(i), st)
}

fn ptype_sweep_case(i: u64) -> Case {
    let ptype = (0x0600 + i % (0x10000 - 0x0600)) as u16;
    let labkind = i / (0x10000 - 0x0600);
    let len = (ptype as u32 * 31) % 41;
    sweep_items(labkind, len, ptype, if ptype % 2 == 0 { BufSpec::FitPlus(if labkind == 3 { -6 } else { 0 }) } else { BufSpec::Abs(4098) }, ptype as u32 % 2)
}

fn check_ptype_sweep(i: u64, st: &mut Stats) -> Result<(), String> {
    check(&ptype_sweep_case(i), st)
}

fn describe_case(c: Case) -> Value {
    serde_json::to_value(c).unwrap_or(Value::Null)
}

pub fn property() -> Property {
    Property {
        id: "C01",
        rule: "streams of 1..6 PDUs (lengths biased to 0, 1 and 4084..=4096; 6-byte/3-byte/broadcast/explicit re-use labels from a small alphabet so substitution happens; protocol types >= 0x0600; buffers exact, +1..8, too small, 4098..70000) through one encapsulator / one decapsulator pair with receiver storage = PDU length + {0, 1, up to 70000}. soundness: every CompletedPkt(n) parses (RefCodec) as one complete packet of n bytes, and decap of exactly those bytes returns the PDU, length, protocol type and the label passed (explicit re-use: the label carried by the preceding start/complete packet, or a re-use error when there is none), consuming n. completeness: when 2+L+len <= 4095 and the buffer holds 4+L+len the call must report a completed packet (L = label as written when Ok, the passed label when Err). non-trivial = stream with a packet >= 4000 bytes, buffer == packet size, storage > PDU, a substituted label, or a buffer > 4097",
        assumptions: &["RefCodec decides what is on the wire; nothing obliges the sender to substitute, so completeness uses the written label"],
        parts: vec![
        Box::new(GenPart {
            name: "streams",
            rule: "see property rule",
            cases: (1_500_000, 40_000_000),
            fuzz_decode: Some(crate::fuzzdec::c01_case),
            strategy,
            check,
            required_classes: &["completed", "substituted", "gse_len>=4000", "buffer==packet", "storage>pdu", "buffer>4097", "explicit-reuse", "explicit-reuse-without-label", "encap-err", "failed-call-before-item", "setting-changed-mid-stream"],
        }),
        Box::new(EnumPart {
            name: "every-length-x-label-x-buffer",
            rule: "exhaustive: every PDU length 0..=4099 x {6-byte, 3-byte, broadcast, substituted 6-byte label} x buffer {exact, exact+1, 4098.., exact-1}; one payload content and protocol type per length; same oracle as the streams",
            size: |_| SWEEP_LENS * 4 * 4,
            exhaustive: |_| true,
            check: check_len_sweep,
            describe: |_t, i| describe_case(len_sweep_case(i)),
            required_classes: &["completed", "substituted", "gse_len>=4000", "buffer==packet", "storage>pdu", "buffer>4097", "fragmented(not C01)"],
        }),
        Box::new(EnumPart {
            name: "every-protocol-type-x-label",
            rule: "exhaustive: every protocol type 0x0600..=0xFFFF x the same four label cases, PDUs of 0..=40 bytes, exact or 4098-byte buffers; same oracle",
            size: |_| (0x10000 - 0x0600) * 4,
            exhaustive: |_| true,
            check: check_ptype_sweep,
            describe: |_t, i| describe_case(ptype_sweep_case(i)),
            required_classes: &["completed", "substituted", "buffer==packet", "buffer>4097"],
        })],
    }
}
