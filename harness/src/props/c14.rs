//! C14 — the 16-bit fixed-header codec is a bijection on non-padding headers.
//! Exhaustive: all 65 536 header words and all 4 x 4 x 4096 triples.

use crate::engine::{guard, EnumPart, Property, Stats, Tier};
use dvb_gse_rust::gse_decap::read_gse_header;
use dvb_gse_rust::gse_encap::generate_gse_header;
use dvb_gse_rust::label::LabelType;
use serde_json::{json, Value};

fn lt_bits(lt: &LabelType) -> u16 {
    // ETSI TS 102 606 table 2: 00 6-byte, 01 3-byte, 10 broadcast, 11 re-use
    match lt {
        LabelType::SixBytesLabel => 0,
        LabelType::ThreeBytesLabel => 1,
        LabelType::Broadcast => 2,
        LabelType::ReUse => 3,
    }
}

fn kind_name(se: u16) -> &'static str {
    // the packet-kind type is private to the crate; its derived Debug names are the
    // observable identity.  S/E bits -> expected name.
    match se {
        3 => "CompletePkt",
        2 => "FirstFragPkt",
        0 => "IntermediateFragPkt",
        _ => "EndFragPkt",
    }
}

fn check_word(i: u64, st: &mut Stats) -> Result<(), String> {
    let h = i as u16;
    let padding = h & 0xF000 == 0;
    let r = match guard(|| read_gse_header(h)) {
        Ok(r) => r,
        Err(p) => return st.violation("read-panic", format!("read_gse_header({:#06x}) panicked: {}", h, p.0)),
    };
    match r {
        None => {
            st.class("padding");
            if !padding {
                return st.violation("none-for-nonpadding", format!("read_gse_header({:#06x}) = None but not the padding pattern", h));
            }
        }
        Some((len, kind, lt)) => {
            st.class("packet");
            st.nontrivial_distinct(1);
            if padding {
                return st.violation("some-for-padding", format!("read_gse_header({:#06x}) = Some for the padding pattern", h));
            }
            if len != (h & 0x0FFF) as usize {
                return st.violation("len", format!("read_gse_header({:#06x}) length {} != {}", h, len, h & 0xFFF));
            }
            if format!("{:?}", kind) != kind_name(h >> 14) {
                return st.violation("kind", format!("read_gse_header({:#06x}) kind {:?}, S/E bits say {}", h, kind, kind_name(h >> 14)));
            }
            if lt_bits(&lt) != (h >> 12) & 3 {
                return st.violation("lt", format!("read_gse_header({:#06x}) label type {:?}", h, lt));
            }
            let back = match guard(|| generate_gse_header(&kind, &lt, len as u16)) {
                Ok(b) => b,
                Err(p) => return st.violation("generate-panic", format!("generate_gse_header panicked: {}", p.0)),
            };
            if back != h {
                return st.violation("reencode", format!("generate(read({:#06x})) = {:#06x}", h, back));
            }
        }
    }
    Ok(())
}

fn check_triple(i: u64, st: &mut Stats) -> Result<(), String> {
    let len = (i & 0xFFF) as u16;
    let lti = ((i >> 12) & 3) as u16;
    let se = ((i >> 14) & 3) as u16;
    // obtain the four kind values from four fixed (non-padding) headers and ground them by name
    let probe = |hdr: u16| read_gse_header(hdr).map(|t| t.1);
    let kinds = match guard(|| [probe(0x1000), probe(0x4000), probe(0x8000), probe(0xC000)]) {
        Ok(k) => k,
        Err(p) => return st.violation("read-panic", format!("read_gse_header panicked: {}", p.0)),
    };
    let kind = match kinds[se as usize] {
        Some(k) => k,
        None => return st.violation("none-for-nonpadding", "probe header decoded as padding".into()),
    };
    if format!("{:?}", kind) != kind_name(se) {
        return st.violation("kind", format!("probe kind {:?} for S/E bits {}", kind, se));
    }
    let lt = match lti {
        0 => LabelType::SixBytesLabel,
        1 => LabelType::ThreeBytesLabel,
        2 => LabelType::Broadcast,
        _ => LabelType::ReUse,
    };
    let h = match guard(|| generate_gse_header(&kind, &lt, len)) {
        Ok(h) => h,
        Err(p) => return st.violation("generate-panic", format!("generate_gse_header panicked: {}", p.0)),
    };
    let expect = (se << 14) | (lti << 12) | len;
    if h != expect {
        return st.violation("encode-bits", format!("generate({}, {:?}, {}) = {:#06x}, expected {:#06x}", kind_name(se), lt, len, h, expect));
    }
    if se == 0 && lti == 0 {
        st.class("padding-pattern-triple");
        return Ok(());
    }
    st.class("triple");
    st.nontrivial_distinct(1);
    match guard(|| read_gse_header(h)) {
        Err(p) => st.violation("read-panic", format!("read_gse_header({:#06x}) panicked: {}", h, p.0)),
        Ok(None) => st.violation("none-for-nonpadding", format!("read(generate({}, {:?}, {})) = None", kind_name(se), lt, len)),
        Ok(Some((l2, k2, lt2))) => {
            if l2 != len as usize || format!("{:?}", k2) != kind_name(se) || lt2 != lt {
                st.violation("roundtrip", format!("read(generate({}, {:?}, {})) = ({}, {:?}, {:?})", kind_name(se), lt, len, l2, k2, lt2))
            } else {
                Ok(())
            }
        }
    }
}

fn desc_word(_t: Tier, i: u64) -> Value {
    json!({"header": format!("{:#06x}", i as u16)})
}
fn desc_triple(_t: Tier, i: u64) -> Value {
    json!({"kind": kind_name(((i >> 14) & 3) as u16), "label_type_bits": (i >> 12) & 3, "gse_len": i & 0xFFF})
}

pub fn property() -> Property {
    Property {
        id: "C14",
        rule: "exhaustive enumeration of all 65536 header words (decode, re-encode) and all 4x4x4096 (kind,label type,length) triples (encode, decode); non-trivial = not the padding pattern; distinct by construction (each index is a different word/triple)",
        assumptions: &[
            "the crate-private packet-kind enum is identified through its derived Debug names",
            "expected bit layout is the harness's reading of ETSI TS 102 606 (S,E,LT,12-bit length)",
        ],
        parts: vec![
            Box::new(EnumPart {
                name: "all-header-words",
                rule: "every u16 header word",
                size: |_| 65536,
                exhaustive: |_| true,
                check: check_word,
                describe: desc_word,
                required_classes: &["padding", "packet"],
            }),
            Box::new(EnumPart {
                name: "all-triples",
                rule: "every (kind, label type, gse length) triple",
                size: |_: Tier| 4 * 4 * 4096,
                exhaustive: |_| true,
                check: check_triple,
                describe: desc_triple,
                required_classes: &["triple", "padding-pattern-triple"],
            }),
        ],
    }
}
