//! C09 — encapsulation calls are total and failure-atomic.

use crate::common::*;
use crate::engine::{bx, guard, hash_of, EnumPart, GenPart, Property, Stats, Tier};
use crate::oracle::refcodec::{self, Parsed};
use dvb_gse_rust::gse_encap::{encap_frag_preview, encap_preview, ContextFrag, EncapMetadata, EncapStatus};
use proptest::prelude::*;
use serde::{Deserialize, Serialize};
use serde_json::{json, Value};

#[derive(Clone, Debug, PartialEq, Eq, Hash, Serialize, Deserialize)]
pub enum PrefixOp {
    /// successful complete packet with alphabet label i (0..=2 six-byte/3-byte, 3 broadcast)
    Send(u8),
    Reset,
    Cfg(ReuseCfg),
}

#[derive(Clone, Debug, PartialEq, Eq, Hash, Serialize, Deserialize)]
pub enum CallSpec {
    Encap { pdu: Pdu, lab: Lab, ptype: u16, frag_id: u8, buf: BufSpec },
    EncapExt { pdu: Pdu, lab: Lab, ptype: u16, frag_id: u8, buf: BufSpec, exts: Vec<ExtSpec> },
    EncapFrag { pdu: Pdu, frag_id: u8, crc: u32, pos: u16, pos_mode: u8, buf: BufSpec },
    Preview { pdu: Pdu, lab: Lab, ptype: u16, buf: BufSpec },
    FragPreview { pdu: Pdu, frag_id: u8, crc: u32, pos: u16, pos_mode: u8, buf: BufSpec },
}

#[derive(Clone, Debug, PartialEq, Eq, Hash, Serialize, Deserialize)]
pub struct Case {
    pub prefix: Vec<PrefixOp>,
    pub call: CallSpec,
    /// label index of the follow-up call (same alphabet as the prefix)
    pub follow: u8,
}

pub fn alpha_label(i: u8) -> Lab {
    match i % 4 {
        0 => Lab::Six(ALPHA6[0]),
        1 => Lab::Six(ALPHA6[1]),
        2 => Lab::Three(ALPHA3[0]),
        _ => Lab::Broadcast,
    }
}

/// labels for the call under test: mostly the alphabet (so that re-use state matters)
pub fn call_label() -> impl Strategy<Value = Lab> {
    prop_oneof![
        5 => (0u8..4).prop_map(alpha_label),
        3 => lab_any(),
        1 => Just(Lab::Six([0; 6])),
        1 => Just(Lab::ReUse),
    ]
}

pub fn prefix() -> impl Strategy<Value = Vec<PrefixOp>> {
    prop::collection::vec(
        prop_oneof![
            5 => (0u8..4).prop_map(PrefixOp::Send),
            1 => Just(PrefixOp::Reset),
            2 => reuse_cfg().prop_map(PrefixOp::Cfg),
        ],
        0..5,
    )
}

/// buffer specs weighted to "buffer > 4097 with PDU > 4095" and to the error thresholds
pub fn buf_c09() -> impl Strategy<Value = BufSpec> {
    prop_oneof![
        4 => bufspec_any(),
        3 => (4098u32..=70000).prop_map(BufSpec::Abs),
        2 => (0u32..=16).prop_map(BufSpec::Abs),
        2 => (-12i32..=2).prop_map(BufSpec::HdrPlus),
    ]
}

pub fn pdu_c09() -> impl Strategy<Value = Pdu> {
    (
        prop_oneof![
            6 => pdu_len_any70k(),
            3 => 4096u32..=70000,
            2 => 65520u32..=65540,
        ],
        pdu_seed(),
    )
        .prop_map(|(len, seed)| Pdu { len, seed })
}

fn any_ext_list() -> impl Strategy<Value = Vec<ExtSpec>> {
    prop::collection::vec(prop_oneof![4 => ext_optional(), 2 => ext_mand_nonfinal(), 2 => ext_mand_final()], 0..=4)
}

pub fn resolve_pos(pos: u16, mode: u8, len: usize) -> u16 {
    match mode % 4 {
        0 => idx16(pos, len.min(65535) + 1) as u16, // inside 0..=len
        1 => len.min(65535) as u16,                 // exactly at the end
        2 => (len.min(65534) + 1 + (pos as usize % 7)).min(65535) as u16, // just beyond (when len < 65535)
        _ => pos,                                   // anything
    }
}

fn call_spec() -> impl Strategy<Value = CallSpec> {
    prop_oneof![
        4 => (pdu_c09(), call_label(), ptype_any(), any::<u8>(), buf_c09()).prop_map(|(pdu, lab, ptype, frag_id, buf)| CallSpec::Encap { pdu, lab, ptype, frag_id, buf }),
        3 => (pdu_c09(), call_label(), ptype_any(), any::<u8>(), buf_c09(), any_ext_list()).prop_map(|(pdu, lab, ptype, frag_id, buf, exts)| CallSpec::EncapExt { pdu, lab, ptype, frag_id, buf, exts }),
        3 => (pdu_c09(), any::<u8>(), any::<u32>(), any::<u16>(), any::<u8>(), buf_c09()).prop_map(|(pdu, frag_id, crc, pos, pos_mode, buf)| CallSpec::EncapFrag { pdu, frag_id, crc, pos, pos_mode, buf }),
        2 => (pdu_c09(), call_label(), ptype_any(), buf_c09()).prop_map(|(pdu, lab, ptype, buf)| CallSpec::Preview { pdu, lab, ptype, buf }),
        2 => (pdu_c09(), any::<u8>(), any::<u32>(), any::<u16>(), any::<u8>(), buf_c09()).prop_map(|(pdu, frag_id, crc, pos, pos_mode, buf)| CallSpec::FragPreview { pdu, frag_id, crc, pos, pos_mode, buf }),
    ]
}

fn strategy(_t: Tier) -> BoxedStrategy<Case> {
    bx((prefix(), call_spec(), 0u8..3).prop_map(|(prefix, call, follow)| Case { prefix, call, follow }))
}

pub fn apply_prefix(enc: &mut Enc, prefix: &[PrefixOp]) -> Result<(), String> {
    for op in prefix {
        match op {
            PrefixOp::Send(i) => {
                let mut b = [0u8; 64];
                match call_encap(enc, b"prefix", 1, 0x0800, alpha_label(*i), &mut b) {
                    Ok(Ok(EncapStatus::CompletedPkt(_))) => {}
                    o => return Err(format!("prefix send failed: {:?}", o.map_err(|p| p.0))),
                }
            }
            PrefixOp::Reset => enc.reset_last_label(),
            PrefixOp::Cfg(c) => apply_reuse(enc, *c),
        }
    }
    Ok(())
}

const FILL: u8 = 0xC7;

fn check(c: &Case, st: &mut Stats) -> Result<(), String> {
    let mut enc = new_enc();
    if let Err(m) = apply_prefix(&mut enc, &c.prefix) {
        return st.violation("prefix-failed", m);
    }
    let snapshot = enc.clone();
    let mut nontrivial = false;
    let mut is_err = false;
    let desc;
    match &c.call {
        CallSpec::Encap { pdu, lab, ptype, frag_id, buf } | CallSpec::EncapExt { pdu, lab, ptype, frag_id, buf, .. } => {
            let exts: &[ExtSpec] = if let CallSpec::EncapExt { exts, .. } = &c.call { exts } else { &[] };
            let is_ext = matches!(c.call, CallSpec::EncapExt { .. });
            let what = if is_ext { "encap_ext" } else { "encap" };
            let data = pdu.bytes();
            let ea: usize = exts.iter().map(|e| e.wire_len()).sum();
            let blen = buf.first(data.len(), lab.len(), ea);
            let mut b = vec![FILL; blen];
            desc = format!("{}(pdu {} bytes, {:?}, ptype {:#06x}, buffer {}, {} exts)", what, data.len(), lab, ptype, blen, exts.len());
            st.class(if is_ext { "encap_ext" } else { "encap" });
            if blen > 4097 && data.len() > 4095 {
                st.class("buffer>4097&pdu>4095");
                nontrivial = true;
            }
            let r = if is_ext {
                let mut v = vec![];
                for e in exts {
                    match e.build() {
                        Ok(x) => v.push(x),
                        Err(m) => return st.violation("ext-build", m),
                    }
                }
                call_encap_ext(&mut enc, &data, *frag_id, *ptype, *lab, &mut b, v)
            } else {
                call_encap(&mut enc, &data, *frag_id, *ptype, *lab, &mut b)
            };
            let r = match r {
                Ok(r) => r,
                Err(p) => return st.violation(&format!("panic {}", p.site()), format!("{} panicked: {}", desc, p.0)),
            };
            match r {
                Err(e) => {
                    is_err = true;
                    st.class("err");
                    if b.iter().any(|x| *x != FILL) {
                        let i = b.iter().position(|x| *x != FILL).unwrap();
                        return st.violation("err-buffer-modified", format!("{} -> Err({:?}) but buffer byte {} was modified", desc, e, i));
                    }
                }
                Ok(s) => {
                    st.class("ok");
                    // mandatory errors must not come back as packets
                    if lab.is_zero6() {
                        return st.violation("ok-for-zero-label", format!("{} -> {:?} for the zero 6-byte label", desc, s));
                    }
                    if (0x0100..0x0600).contains(ptype) {
                        return st.violation("ok-for-bad-ptype", format!("{} -> {:?} for a protocol type in 0x0100..=0x05FF", desc, s));
                    }
                    let n = match s {
                        EncapStatus::CompletedPkt(n) | EncapStatus::FragmentedPkt(n, _) => n as usize,
                    };
                    // label as written: from the emitted bytes
                    let lw = if n >= 2 && n <= b.len() { refcodec::label_len_of_lt((b[0] >> 4) & 3) } else { lab.len() };
                    if 2 + lw + data.len() > 65535 {
                        return st.violation("ok-for-too-long-pdu", format!("{} -> {:?} although 2 + {} + {} > 65535", desc, s, lw, data.len()));
                    }
                }
            }
            if lab.is_zero6() {
                st.class("zero-label");
            }
            if (0x0100..0x0600).contains(ptype) {
                st.class("bad-ptype");
            }
            if data.len() + 2 > 65535 {
                st.class("pdu-too-long");
            }
        }
        CallSpec::EncapFrag { pdu, frag_id, crc, pos, pos_mode, buf } => {
            let data = pdu.bytes();
            let p = resolve_pos(*pos, *pos_mode, data.len());
            let remaining = data.len().saturating_sub(p as usize);
            let blen = buf.cont(remaining);
            let ctx = ContextFrag::new(*frag_id, *crc, p);
            let mut b = vec![FILL; blen];
            desc = format!("encap_frag(pdu {} bytes, ctx pos {}, buffer {})", data.len(), p, blen);
            st.class("encap_frag");
            if blen > 4097 && remaining > 4095 {
                st.class("buffer>4097&pdu>4095");
                nontrivial = true;
            }
            let r = match call_encap_frag(&enc, &data, &ctx, &mut b) {
                Ok(r) => r,
                Err(pn) => return st.violation(&format!("panic {}", pn.site()), format!("{} panicked: {}", desc, pn.0)),
            };
            st.class_if(p as usize > data.len(), "ctx-beyond-pdu");
            match r {
                Err(e) => {
                    is_err = true;
                    st.class("err");
                    if b.iter().any(|x| *x != FILL) {
                        return st.violation("err-buffer-modified", format!("{} -> Err({:?}) but the buffer was modified", desc, e));
                    }
                }
                Ok(s) => {
                    st.class("ok");
                    if p as usize > data.len() {
                        return st.violation("ok-for-ctx-beyond-pdu", format!("{} -> {:?} for a context beyond the PDU", desc, s));
                    }
                }
            }
        }
        CallSpec::Preview { pdu, lab, ptype, buf } => {
            let data = pdu.bytes();
            let blen = buf.first(data.len(), lab.len(), 0);
            let b = vec![FILL; blen];
            desc = format!("encap_preview(pdu {} bytes, {:?}, ptype {:#06x}, buffer {})", data.len(), lab, ptype, blen);
            st.class("encap_preview");
            let md = EncapMetadata::new(*ptype, lab.to_label());
            match guard(|| encap_preview(&data, md, &b)) {
                Ok(r) => {
                    is_err = r.is_err();
                    st.class(if is_err { "err" } else { "ok" });
                }
                Err(p) => return st.violation(&format!("panic {}", p.site()), format!("{} panicked: {}", desc, p.0)),
            }
            if blen > 4097 && data.len() > 4095 {
                st.class("buffer>4097&pdu>4095");
                nontrivial = true;
            }
        }
        CallSpec::FragPreview { pdu, frag_id, crc, pos, pos_mode, buf } => {
            let data = pdu.bytes();
            let p = resolve_pos(*pos, *pos_mode, data.len());
            let remaining = data.len().saturating_sub(p as usize);
            let blen = buf.cont(remaining);
            let ctx = ContextFrag::new(*frag_id, *crc, p);
            let b = vec![FILL; blen];
            desc = format!("encap_frag_preview(pdu {} bytes, ctx pos {}, buffer {})", data.len(), p, blen);
            st.class("encap_frag_preview");
            match guard(|| encap_frag_preview(&data, &ctx, &b)) {
                Ok(r) => {
                    is_err = r.is_err();
                    st.class(if is_err { "err" } else { "ok" });
                }
                Err(pn) => return st.violation(&format!("panic {}", pn.site()), format!("{} panicked: {}", desc, pn.0)),
            }
            if blen > 4097 && remaining > 4095 {
                st.class("buffer>4097&pdu>4095");
                nontrivial = true;
            }
        }
    }
    if is_err {
        nontrivial = true;
        if enc != snapshot {
            return st.violation("err-state-changed", format!("{} returned Err but the encapsulator changed: before {:?} after {:?}", desc, snapshot, enc));
        }
        // observable consequence: the next packet is what it would have been
        let mut twin = snapshot.clone();
        let lab = alpha_label(c.follow);
        let mut b1 = vec![FILL; 100];
        let mut b2 = vec![FILL; 100];
        let r1 = call_encap(&mut enc, b"follow-up", 3, 0x0800, lab, &mut b1);
        let r2 = call_encap(&mut twin, b"follow-up", 3, 0x0800, lab, &mut b2);
        match (r1, r2) {
            (Ok(a), Ok(b)) => {
                if a != b || b1 != b2 {
                    return st.violation(
                        "err-changes-next-packet",
                        format!("after {} -> Err, the next packet ({:?}) is {:?} {} instead of {:?} {}", desc, lab, a, hex(&b1[..16]), b, hex(&b2[..16])),
                    );
                }
                st.class_if(matches!(refcodec::parse(&b1, &mand_lookup), Ok(Parsed::Packet(p, _)) if p.lt == 3 && lab.is_addr()), "follow-up-substituted");
            }
            (a, b) => return st.violation("follow-up-panic", format!("follow-up call: {:?} / {:?}", a.map_err(|p| p.0), b.map_err(|p| p.0))),
        }
    }
    if nontrivial {
        st.nontrivial(hash_of(c));
    }
    st.sample(|| json!({"prefix": format!("{:?}", c.prefix), "call": desc, "returned_err": is_err}));
    Ok(())
}

// ---- enumerated grids ---------------------------------------------------------------------------------

const GRID: u64 = 4201; // lengths 0..=4200
const GRID_B: u64 = 4301; // buffers 0..=4300

/// encap after one packet to alphabet label 0: PDU length x {same label, other 6-byte, 3-byte, broadcast}
/// x buffers 0..=16 and exact fit -8..=+8
fn first_grid(i: u64) -> Case {
    let (len, rest) = (i % GRID, i / GRID);
    let (labkind, k) = (rest % 4, rest / 4);
    let buf = if k < 17 { BufSpec::Abs(k as u32) } else { BufSpec::FitPlus(k as i32 - 17 - 8) };
    Case {
        prefix: vec![PrefixOp::Send(0)],
        call: CallSpec::Encap { pdu: Pdu { len: len as u32, seed: 3 + len as u32 }, lab: alpha_label(labkind as u8), ptype: 0x0600 + ((len * 7919) % (0x10000 - 0x0600)) as u16, frag_id: (len % 256) as u8, buf },
        follow: (len % 4) as u8,
    }
}

/// encap_frag with r bytes remaining and a buffer of b bytes
fn cont_grid(i: u64) -> Case {
    let (r, b) = (i / GRID_B, i % GRID_B);
    Case {
        prefix: vec![PrefixOp::Send(0)],
        call: CallSpec::EncapFrag { pdu: Pdu { len: (r + 5) as u32, seed: 3 + r as u32 }, frag_id: (r % 256) as u8, crc: 0xFACE_0000 | r as u32, pos: 5, pos_mode: 3, buf: BufSpec::Abs(b as u32) },
        follow: (r % 4) as u8,
    }
}

fn check_first_grid(i: u64, st: &mut Stats) -> Result<(), String> {
    check(&first_grid(i), st)
}

fn check_cont_grid(i: u64, st: &mut Stats) -> Result<(), String> {
    check(&cont_grid(i), st)
}

pub fn property() -> Property {
    Property {
        id: "C09",
        rule: "a prior state (0..4 successful sends over a 4-label alphabet, resets, settings changes) then one call of encap / encap_ext / encap_frag / encap_preview / encap_frag_preview with PDU 0..=70000, buffer 0..=70000 (weighted to buffer > 4097 with PDU > 4095 and to header thresholds), any label incl. zero and explicit re-use, any protocol type, any context (inside, at the end, beyond the PDU), 0..4 extensions in valid and invalid combinations; oracle: no panic; on Err the buffer is byte-identical, the encapsulator equals its snapshot and a follow-up packet equals the one a twin that never made the call emits; Ok is a violation for zero label / protocol type 0x0100..=0x05FF / total length > 65535 / context beyond the PDU. non-trivial = the call returned Err, or buffer > 4097 with more than 4095 bytes to send",
        assumptions: &["Encapsulator's derived Clone/PartialEq expose its whole state; the follow-up twin makes the comparison independent of private fields"],
        parts: vec![Box::new(EnumPart {
            name: "encap-grid",
            rule: "after one packet to a 6-byte label: encap for every PDU length 0..=4200 x {same label, another 6-byte label, 3-byte, broadcast} x buffers 0..=16 and exact fit -8..=+8 (exhaustive); same oracle",
            size: |_| GRID * 4 * 34,
            exhaustive: |_| true,
            check: check_first_grid,
            describe: |_t, i| serde_json::to_value(first_grid(i)).unwrap_or(Value::Null),
            required_classes: &["encap", "err", "ok", "follow-up-substituted"],
        }), Box::new(EnumPart {
            name: "encap-frag-grid",
            rule: "encap_frag for every pair (remaining length 0..=4200, buffer 0..=4300), 18 M pairs, exhaustive; same oracle",
            size: |_| GRID * GRID_B,
            exhaustive: |_| true,
            check: check_cont_grid,
            describe: |_t, i| serde_json::to_value(cont_grid(i)).unwrap_or(Value::Null),
            required_classes: &["encap_frag", "err", "ok"],
        }), Box::new(GenPart {
            name: "single-call",
            rule: "see property rule",
            cases: (1_500_000, 30_000_000),
            fuzz_decode: Some(crate::fuzzdec::c09_case),
            strategy,
            check,
            required_classes: &[
                "encap", "encap_ext", "encap_frag", "encap_preview", "encap_frag_preview", "err", "ok", "zero-label", "bad-ptype",
                "pdu-too-long", "ctx-beyond-pdu", "buffer>4097&pdu>4095", "follow-up-substituted",
            ],
        })],
    }
}
