//! Coverage-guided entry points: a libFuzzer input is turned into a case of a generated part
//! through the part's own proptest strategy (pass-through RNG), and judged by the same oracle.

use crate::engine::{self, Failure, Tier, FUZZ_KNOWN};
use crate::props;

/// "C08/ledger-histories"
pub fn parse_target(t: &str) -> Option<(String, String)> {
    let (a, b) = t.split_once('/')?;
    Some((a.to_string(), b.to_string()))
}

pub fn init(prop: &str) {
    engine::install_panic_hook();
    let known = engine::load_known(&engine::verif_root(), prop);
    FUZZ_KNOWN.with(|k| *k.borrow_mut() = known);
}

/// Judge one input.  On a violation the shrunk-less case is saved as an ordinary replay file
/// and its path returned.
pub fn fuzz_one(prop: &str, part: &str, data: &[u8]) -> Result<(), String> {
    let p = props::get(prop).ok_or_else(|| format!("unknown property {prop}"))?;
    for pt in &p.parts {
        if pt.name() == part {
            if let Some(f) = pt.fuzz_one(data, Tier::Quick) {
                if f.message.starts_with("[harness") {
                    return Ok(());
                }
                let f = Failure { part: f.part, case: f.case, message: f.message };
                let path = engine::write_replay(prop, Tier::Quick, 0, &f);
                return Err(format!("{} :: {}", path, f.message));
            }
            return Ok(());
        }
    }
    Err(format!("unknown part {part}"))
}

pub fn fuzzable_targets() -> Vec<String> {
    let mut v = vec![];
    for id in props::ids() {
        if let Some(p) = props::get(id) {
            for pt in &p.parts {
                if pt.fuzzable() {
                    v.push(format!("{}/{}", id, pt.name()));
                }
            }
        }
    }
    v
}

/// deterministic pseudo-random seed files (the decoders accept any bytes)
pub fn write_seed_corpus(_prop: &str, _part: &str, dir: &str, n: usize, seed: u64) -> Result<usize, String> {
    std::fs::create_dir_all(dir).map_err(|e| e.to_string())?;
    for i in 0..n {
        let len = [64usize, 256, 1024, 4096][i % 4];
        let mut x = engine::mix64(seed ^ (i as u64 + 1).wrapping_mul(0x9E37_79B9_7F4A_7C15)) | 1;
        let mut v = Vec::with_capacity(len);
        while v.len() < len {
            x ^= x << 13;
            x ^= x >> 7;
            x ^= x << 17;
            v.extend_from_slice(&x.to_le_bytes());
        }
        std::fs::write(format!("{}/seed-{:03}", dir, i), &v).map_err(|e| e.to_string())?;
    }
    Ok(n)
}
