use gse_verif::engine::{self, ReplayErr, Tier};
use gse_verif::oracle::{refcodec, refcrc};
use gse_verif::props;

fn usage() -> ! {
    eprintln!("usage: vcheck <ID> <quick|thorough> | vcheck <ID> --replay <file> | vcheck --list");
    std::process::exit(2)
}

fn main() {
    let args: Vec<String> = std::env::args().collect();
    if args.len() >= 2 && args[1] == "--list" {
        for id in props::ids() {
            println!("{}", id);
        }
        return;
    }
    if args.len() < 3 {
        usage();
    }
    engine::install_panic_hook();
    if let Err(e) = refcrc::self_test().and_then(|_| refcodec::self_test()) {
        println!("INCONCLUSIVE oracle self-test failed: {}", e);
        std::process::exit(2);
    }
    let id = args[1].as_str();
    let prop = match props::get(id) {
        Some(p) => p,
        None => {
            eprintln!("unknown property {}", id);
            std::process::exit(2);
        }
    };
    let seed: u64 = std::env::var("VERIF_SEED")
        .ok()
        .and_then(|s| s.trim().parse::<i64>().ok())
        .map(|v| v as u64)
        .unwrap_or(0);
    if args[2] == "--replay" {
        if args.len() < 4 {
            usage();
        }
        match engine::replay_file(&prop, &args[3], Tier::Quick) {
            Ok(()) => {
                println!("replay {}: property {} holds on this case", args[3], id);
                std::process::exit(0);
            }
            Err(ReplayErr::Violation(m)) => {
                println!("VIOLATION property={} replay={}", id, args[3]);
                println!("{}", m);
                std::process::exit(1);
            }
            Err(ReplayErr::Bad(m)) => {
                println!("INCONCLUSIVE cannot replay {}: {}", args[3], m);
                std::process::exit(2);
            }
        }
    }
    let tier = match args[2].as_str() {
        "quick" => Tier::Quick,
        "thorough" => Tier::Thorough,
        _ => usage(),
    };
    std::process::exit(engine::run_property(&prop, tier, seed));
}
