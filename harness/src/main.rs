use gse_verif::engine::{self, ReplayErr, Tier};
use gse_verif::oracle::{refcodec, refcrc};
use gse_verif::props;

fn usage() -> ! {
    eprintln!("usage: vcheck <ID> <quick|thorough> | vcheck <ID> --replay <file> | vcheck --list");
    std::process::exit(2)
}

fn main() {
    let args: Vec<String> = std::env::args().collect();
    if args.len() >= 2 && args[1] == "--list" {
        for id in props::ids() {
            println!("{}", id);
        }
        return;
    }
    if args.len() >= 2 && args[1] == "--fuzz-targets" {
        for t in gse_verif::fuzz::fuzzable_targets() {
            println!("{}", t);
        }
        return;
    }
    if args.len() >= 5 && args[1] == "--fuzz-one" {
        // vcheck --fuzz-one <ID> <part> <file>: run one libFuzzer input through the part (no fuzzer needed)
        gse_verif::fuzz::init(&args[2]);
        let data = std::fs::read(&args[4]).expect("read input");
        match gse_verif::fuzz::fuzz_one(&args[2], &args[3], &data) {
            Ok(()) => println!("held"),
            Err(m) => {
                println!("FUZZ-VIOLATION {}", m);
                std::process::exit(1);
            }
        }
        return;
    }
    if args.len() >= 6 && args[1] == "--seed-corpus" {
        // vcheck --seed-corpus <ID> <part> <dir> <n>
        let seed: u64 = std::env::var("VERIF_SEED").ok().and_then(|s| s.trim().parse::<i64>().ok()).map(|v| v as u64).unwrap_or(0);
        match gse_verif::fuzz::write_seed_corpus(&args[2], &args[3], &args[4], args[5].parse().unwrap_or(16), seed) {
            Ok(n) => {
                println!("{} seeds written to {}", n, args[4]);
                return;
            }
            Err(e) => {
                eprintln!("{}", e);
                std::process::exit(2);
            }
        }
    }
    if args.len() < 3 {
        usage();
    }
    engine::install_panic_hook();
    if let Err(e) = refcrc::self_test().and_then(|_| refcodec::self_test()) {
        println!("INCONCLUSIVE oracle self-test failed: {}", e);
        std::process::exit(2);
    }
    let id = args[1].as_str();
    let prop = match props::get(id) {
        Some(p) => p,
        None => {
            eprintln!("unknown property {}", id);
            std::process::exit(2);
        }
    };
    let seed: u64 = std::env::var("VERIF_SEED")
        .ok()
        .and_then(|s| s.trim().parse::<i64>().ok())
        .map(|v| v as u64)
        .unwrap_or(0);
    if args[2] == "--replay" {
        if args.len() < 4 {
            usage();
        }
        match engine::replay_file(&prop, &args[3], Tier::Quick) {
            Ok(()) => {
                println!("replay {}: property {} holds on this case", args[3], id);
                std::process::exit(0);
            }
            Err(ReplayErr::Violation(m)) => {
                println!("VIOLATION property={} replay={}", id, args[3]);
                println!("{}", m);
                std::process::exit(1);
            }
            Err(ReplayErr::Bad(m)) => {
                println!("INCONCLUSIVE cannot replay {}: {}", args[3], m);
                std::process::exit(2);
            }
        }
    }
    let tier = match args[2].as_str() {
        "quick" => Tier::Quick,
        "thorough" => Tier::Thorough,
        _ => usage(),
    };
    std::process::exit(engine::run_property(&prop, tier, seed));
}
