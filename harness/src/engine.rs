//! Engine: sharded proptest runner, exhaustive enumerator, evidence writer,
//! replay files, known findings, panic capture.
//!
//! A property is a list of `Part`s.  Each part is either *generated* (proptest
//! strategy + oracle) or *enumerated* (index space + oracle).  A run is a pure
//! function of the code under test and VERIF_SEED.

use proptest::strategy::{BoxedStrategy, Strategy, ValueTree};
use proptest::test_runner::{Config, RngSeed, TestCaseError, TestError, TestRunner};
use serde::{de::DeserializeOwned, Serialize};
use serde_json::{json, Value};
use std::cell::RefCell;
use std::collections::{BTreeMap, HashSet};
use std::fmt::Debug;
use std::panic::{catch_unwind, AssertUnwindSafe};
use std::sync::atomic::{AtomicBool, Ordering};
use std::time::Instant;

#[derive(Clone, Copy, PartialEq, Eq, Debug)]
pub enum Tier {
    Quick,
    Thorough,
}
impl Tier {
    pub fn name(self) -> &'static str {
        match self {
            Tier::Quick => "quick",
            Tier::Thorough => "thorough",
        }
    }
    pub fn pick<T>(self, q: T, t: T) -> T {
        match self {
            Tier::Quick => q,
            Tier::Thorough => t,
        }
    }
}

// ---------------------------------------------------------------------------
// panic capture

thread_local! {
    static LAST_PANIC: RefCell<Option<String>> = const { RefCell::new(None) };
    /// known findings in force for coverage-guided runs (set by fuzz::init)
    pub static FUZZ_KNOWN: RefCell<Vec<Known>> = const { RefCell::new(Vec::new()) };
}

pub fn install_panic_hook() {
    std::panic::set_hook(Box::new(|info| {
        let loc = info
            .location()
            .map(|l| format!("{}:{}", l.file(), l.line()))
            .unwrap_or_else(|| "<unknown>".into());
        let msg = if let Some(s) = info.payload().downcast_ref::<&str>() {
            (*s).to_string()
        } else if let Some(s) = info.payload().downcast_ref::<String>() {
            s.clone()
        } else {
            "<non-string panic>".into()
        };
        LAST_PANIC.with(|p| *p.borrow_mut() = Some(format!("{} ({})", loc, msg)));
    }));
}

/// A panic raised by the code under test: "file:line (message)".
#[derive(Debug, Clone)]
pub struct Panicked(pub String);

impl Panicked {
    /// panic site without the message, e.g. `/repo/src/gse_decap/mod.rs:365`
    pub fn site(&self) -> &str {
        self.0.split(" (").next().unwrap_or(&self.0)
    }
}

/// Run `f` (a call into the crate under test); a panic becomes `Err(Panicked)`.
pub fn guard<R>(f: impl FnOnce() -> R) -> Result<R, Panicked> {
    match catch_unwind(AssertUnwindSafe(f)) {
        Ok(r) => Ok(r),
        Err(_) => {
            let s = LAST_PANIC
                .with(|p| p.borrow_mut().take())
                .unwrap_or_else(|| "<unknown panic>".into());
            Err(Panicked(s))
        }
    }
}

// ---------------------------------------------------------------------------
// known findings

#[derive(Clone, Debug)]
pub struct Known {
    pub property: String,
    pub signature: String,
    pub what: String,
}

/// known_findings.txt, one finding per line:
///   fixed: property=<id> <commit> <what failed>            (suppresses nothing)
///   known: property=<id> signature=`<sig>` <what fails>    (cases failing with exactly this
///                                                           signature are counted, not reported)
pub fn load_known(verif_root: &str, property: &str) -> Vec<Known> {
    let path = format!("{}/known_findings.txt", verif_root);
    let mut out = vec![];
    if let Ok(txt) = std::fs::read_to_string(&path) {
        for line in txt.lines() {
            let line = line.trim();
            let Some(rest) = line.strip_prefix("known:") else { continue };
            let rest = rest.trim();
            let Some(rest) = rest.strip_prefix(&format!("property={} ", property)) else { continue };
            let Some(rest) = rest.trim().strip_prefix("signature=`") else { continue };
            let Some(end) = rest.find('`') else { continue };
            out.push(Known { property: property.to_string(), signature: rest[..end].to_string(), what: rest[end + 1..].trim().to_string() });
        }
    }
    out
}

// ---------------------------------------------------------------------------
// per-shard statistics

pub struct Stats {
    pub evaluations: u64,
    pub classes: BTreeMap<&'static str, u64>,
    nt_hashes: HashSet<u64>,
    /// non-trivial cases that are distinct by construction (exhaustive enumerations)
    nt_by_construction: u64,
    pub samples: Vec<Value>,
    sample_cap: usize,
    pub excluded_known: BTreeMap<String, u64>,
    known: Vec<Known>,
    /// when false nothing is recorded (shrinking / replay re-runs)
    pub recording: bool,
    /// enumerated parts: every index is a different case, so non-trivial cases are counted, not hashed
    pub distinct_by_construction: bool,
    /// (enumerated parts) the current index has already been counted as non-trivial
    pub counted_this_eval: bool,
    pub tier: Tier,
}

impl Stats {
    pub fn new(tier: Tier, known: Vec<Known>) -> Self {
        Stats {
            evaluations: 0,
            classes: BTreeMap::new(),
            nt_hashes: HashSet::new(),
            nt_by_construction: 0,
            samples: vec![],
            sample_cap: 3,
            excluded_known: BTreeMap::new(),
            known,
            recording: true,
            distinct_by_construction: false,
            counted_this_eval: false,
            tier,
        }
    }
    #[inline]
    pub fn class(&mut self, name: &'static str) {
        if self.recording {
            *self.classes.entry(name).or_insert(0) += 1;
        }
    }
    #[inline]
    pub fn class_n(&mut self, name: &'static str, n: u64) {
        if self.recording {
            *self.classes.entry(name).or_insert(0) += n;
        }
    }
    #[inline]
    pub fn class_if(&mut self, cond: bool, name: &'static str) {
        if cond {
            self.class(name)
        }
    }
    /// register the current case as non-trivial; `h` = structural hash of the case
    #[inline]
    pub fn nontrivial(&mut self, h: u64) {
        if self.recording {
            if self.distinct_by_construction {
                if !self.counted_this_eval {
                    self.counted_this_eval = true;
                    self.nt_by_construction += 1;
                }
            } else {
                self.nt_hashes.insert(h);
            }
        }
    }
    #[inline]
    pub fn nontrivial_distinct(&mut self, n: u64) {
        if self.recording {
            self.nt_by_construction += n;
        }
    }
    pub fn sample(&mut self, v: impl FnOnce() -> Value) {
        if self.recording && self.samples.len() < self.sample_cap {
            self.samples.push(v());
        }
    }
    pub fn want_sample(&self) -> bool {
        self.recording && self.samples.len() < self.sample_cap
    }
    /// Report a property violation with a signature.  If the signature is a
    /// listed known finding the case is counted and the search continues.
    pub fn violation(&mut self, sig: &str, detail: String) -> Result<(), String> {
        if self.known.iter().any(|k| k.signature == sig) {
            if self.recording {
                *self.excluded_known.entry(sig.to_string()).or_insert(0) += 1;
            }
            return Ok(());
        }
        Err(format!("[{}] {}", sig, detail))
    }
    pub fn distinct_nontrivial(&self) -> u64 {
        self.nt_hashes.len() as u64 + self.nt_by_construction
    }
    fn merge(&mut self, o: Stats) {
        self.evaluations += o.evaluations;
        for (k, v) in o.classes {
            *self.classes.entry(k).or_insert(0) += v;
        }
        self.nt_hashes.extend(o.nt_hashes);
        self.nt_by_construction += o.nt_by_construction;
        for s in o.samples {
            if self.samples.len() < 6 {
                self.samples.push(s);
            }
        }
        for (k, v) in o.excluded_known {
            *self.excluded_known.entry(k).or_insert(0) += v;
        }
    }
}

pub fn hash_of<T: std::hash::Hash>(t: &T) -> u64 {
    use std::hash::Hasher;
    // FNV-1a 64 then a finaliser: stable across runs (no RandomState).
    struct Fnv(u64);
    impl Hasher for Fnv {
        fn finish(&self) -> u64 {
            let mut z = self.0;
            z ^= z >> 33;
            z = z.wrapping_mul(0xff51afd7ed558ccd);
            z ^= z >> 33;
            z
        }
        fn write(&mut self, bytes: &[u8]) {
            for b in bytes {
                self.0 ^= *b as u64;
                self.0 = self.0.wrapping_mul(0x100000001b3);
            }
        }
    }
    let mut h = Fnv(0xcbf29ce484222325);
    t.hash(&mut h);
    h.finish()
}

pub fn mix64(mut z: u64) -> u64 {
    z = z.wrapping_add(0x9E3779B97F4A7C15);
    z = (z ^ (z >> 30)).wrapping_mul(0xBF58476D1CE4E5B9);
    z = (z ^ (z >> 27)).wrapping_mul(0x94D049BB133111EB);
    z ^ (z >> 31)
}

// ---------------------------------------------------------------------------
// parts

pub struct Failure {
    pub part: String,
    pub case: Value,
    pub message: String,
}

pub struct PartReport {
    pub name: String,
    pub kind: &'static str,
    pub stats: Stats,
    pub failures: Vec<Failure>,
    pub wall_s: f64,
    pub exhaustive: bool,
    pub space_size: Option<u64>,
    pub required_classes: Vec<&'static str>,
    pub rule: &'static str,
}

pub struct Env {
    pub tier: Tier,
    pub seed: u64,
    pub threads: usize,
    pub known: Vec<Known>,
    pub property: &'static str,
}

pub trait Part: Sync {
    fn name(&self) -> &'static str;
    fn run(&self, env: &Env) -> PartReport;
    fn replay(&self, case: &Value, tier: Tier) -> Result<(), String>;
    /// coverage-guided entry: decode `data` into a case through the part's own strategy
    /// (proptest pass-through RNG) and judge it; None = held / not applicable
    fn fuzz_one(&self, _data: &[u8], _tier: Tier) -> Option<Failure> {
        None
    }
    fn fuzzable(&self) -> bool {
        false
    }
}

/// Generated part: proptest strategy + oracle.
pub struct GenPart<C: 'static> {
    pub name: &'static str,
    pub rule: &'static str,
    pub cases: (u64, u64),
    pub strategy: fn(Tier) -> BoxedStrategy<C>,
    pub check: fn(&C, &mut Stats) -> Result<(), String>,
    /// hand-written decoder libFuzzer bytes -> case (None: the part is not fuzzed coverage-guided)
    pub fuzz_decode: Option<fn(&[u8]) -> C>,
    pub required_classes: &'static [&'static str],
}

fn run_check<C>(
    check: fn(&C, &mut Stats) -> Result<(), String>,
    c: &C,
    st: &mut Stats,
) -> Result<(), String> {
    match guard(|| check(c, st)) {
        Ok(r) => r,
        Err(p) => Err(format!("[uncaught-panic {}] {}", p.site(), p.0)),
    }
}

impl<C> Part for GenPart<C>
where
    C: Debug + Clone + Serialize + DeserializeOwned + Send + 'static,
{
    fn name(&self) -> &'static str {
        self.name
    }

    fn run(&self, env: &Env) -> PartReport {
        let t0 = Instant::now();
        // VERIF_SCALE (percent, default 100) scales the case budget of generated parts; used only by the
        // sensitivity tooling for a cheaper first pass, never by the registered commands
        let scale: u64 = std::env::var("VERIF_SCALE").ok().and_then(|s| s.parse().ok()).unwrap_or(100);
        let total = (env.tier.pick(self.cases.0, self.cases.1) * scale / 100).max(16);
        let shards = env.threads.max(1) as u64;
        let per = (total + shards - 1) / shards;
        let stop = AtomicBool::new(false);
        let name_hash = hash_of(&(env.property, self.name));
        let results: Vec<(Stats, Option<Failure>)> = std::thread::scope(|sc| {
            let mut hs = vec![];
            for shard in 0..shards {
                let stop = &stop;
                let check = self.check;
                let strategy = self.strategy;
                let known = env.known.clone();
                let tier = env.tier;
                let seed = mix64(env.seed ^ name_hash ^ mix64(shard.wrapping_mul(0x9E37)));
                let pname = self.name;
                hs.push(sc.spawn(move || {
                    let st_cell = RefCell::new(Stats::new(tier, known));
                    let cfg = Config {
                        cases: per as u32,
                        failure_persistence: None,
                        rng_seed: RngSeed::Fixed(seed),
                        max_shrink_iters: 20_000,
                        max_global_rejects: 10_000_000,
                        max_local_rejects: 10_000_000,
                        ..Config::default()
                    };
                    let mut runner = TestRunner::new(cfg);
                    let strat = strategy(tier);
                    let failed = std::cell::Cell::new(false);
                    let res = runner.run(&strat, |c| {
                        let mut st = st_cell.borrow_mut();
                        if stop.load(Ordering::Relaxed) && !failed.get() {
                            return Ok(());
                        }
                        if failed.get() {
                            st.recording = false;
                        } else {
                            st.evaluations += 1;
                        }
                        match run_check(check, &c, &mut st) {
                            Ok(()) => Ok(()),
                            Err(m) => {
                                failed.set(true);
                                st.recording = false;
                                stop.store(true, Ordering::Relaxed);
                                Err(TestCaseError::fail(m))
                            }
                        }
                    });
                    let mut st = st_cell.into_inner();
                    let failure = match res {
                        Ok(()) => None,
                        Err(TestError::Fail(reason, c)) => Some(Failure {
                            part: pname.to_string(),
                            case: serde_json::to_value(&c).unwrap_or(Value::Null),
                            message: reason.message().to_string(),
                        }),
                        Err(TestError::Abort(reason)) => Some(Failure {
                            part: pname.to_string(),
                            case: Value::Null,
                            message: format!("[harness-abort] {}", reason.message()),
                        }),
                    };
                    st.recording = true;
                    (st, failure)
                }));
            }
            hs.into_iter().map(|h| h.join().expect("shard thread")).collect()
        });
        let mut stats = Stats::new(env.tier, env.known.clone());
        let mut failures = vec![];
        for (s, f) in results {
            stats.merge(s);
            if let Some(f) = f {
                failures.push(f);
            }
        }
        PartReport {
            name: self.name.to_string(),
            kind: "generated",
            stats,
            failures,
            wall_s: t0.elapsed().as_secs_f64(),
            exhaustive: false,
            space_size: None,
            required_classes: self.required_classes.to_vec(),
            rule: self.rule,
        }
    }

    fn replay(&self, case: &Value, tier: Tier) -> Result<(), String> {
        let c: C = serde_json::from_value(case.clone()).map_err(|e| format!("bad case: {e}"))?;
        let mut st = Stats::new(tier, vec![]);
        st.recording = false;
        run_check(self.check, &c, &mut st)
    }

    fn fuzzable(&self) -> bool {
        self.fuzz_decode.is_some()
    }

    fn fuzz_one(&self, data: &[u8], tier: Tier) -> Option<Failure> {
        let dec = self.fuzz_decode?;
        let c = match guard(|| dec(data)) {
            Ok(c) => c,
            Err(p) => return Some(Failure { part: self.name.to_string(), case: Value::Null, message: format!("[harness-decoder-panic] {}", p.0) }),
        };
        let known = FUZZ_KNOWN.with(|k| k.borrow().clone());
        let mut st = Stats::new(tier, known);
        st.recording = false;
        match run_check(self.check, &c, &mut st) {
            Ok(()) => None,
            Err(m) => Some(Failure { part: self.name.to_string(), case: serde_json::to_value(&c).unwrap_or(Value::Null), message: m }),
        }
    }
}

/// Enumerated part: indices 0..size(tier), each decoded by the oracle itself.
pub struct EnumPart {
    pub name: &'static str,
    pub rule: &'static str,
    pub size: fn(Tier) -> u64,
    /// true when the enumeration of this tier closes the whole space it describes
    pub exhaustive: fn(Tier) -> bool,
    pub check: fn(u64, &mut Stats) -> Result<(), String>,
    pub describe: fn(Tier, u64) -> Value,
    pub required_classes: &'static [&'static str],
}

impl Part for EnumPart {
    fn name(&self) -> &'static str {
        self.name
    }
    fn run(&self, env: &Env) -> PartReport {
        let t0 = Instant::now();
        let total = (self.size)(env.tier);
        let shards = (env.threads.max(1) as u64).min(total.max(1));
        let stop = AtomicBool::new(false);
        let results: Vec<(Stats, Option<Failure>)> = std::thread::scope(|sc| {
            let mut hs = vec![];
            for shard in 0..shards {
                let lo = total * shard / shards;
                let hi = total * (shard + 1) / shards;
                let stop = &stop;
                let check = self.check;
                let describe = self.describe;
                let known = env.known.clone();
                let tier = env.tier;
                let pname = self.name;
                hs.push(sc.spawn(move || {
                    let mut st = Stats::new(tier, known);
                    st.distinct_by_construction = true;
                    let mut failure = None;
                    for i in lo..hi {
                        if (i & 0x3ff) == 0 && stop.load(Ordering::Relaxed) {
                            break;
                        }
                        st.evaluations += 1;
                        st.counted_this_eval = false;
                        let r = match guard(|| check(i, &mut st)) {
                            Ok(r) => r,
                            Err(p) => Err(format!("[uncaught-panic {}] {}", p.site(), p.0)),
                        };
                        if let Err(m) = r {
                            stop.store(true, Ordering::Relaxed);
                            failure = Some(Failure {
                                part: pname.to_string(),
                                case: json!({"index": i, "decoded": describe(tier, i)}),
                                message: m,
                            });
                            break;
                        }
                    }
                    (st, failure)
                }));
            }
            hs.into_iter().map(|h| h.join().expect("shard thread")).collect()
        });
        let mut stats = Stats::new(env.tier, env.known.clone());
        let mut failures = vec![];
        for (s, f) in results {
            stats.merge(s);
            if let Some(f) = f {
                failures.push(f);
            }
        }
        // keep the lowest failing index only (deterministic, minimal)
        failures.sort_by_key(|f| f.case["index"].as_u64().unwrap_or(u64::MAX));
        failures.truncate(1);
        if stats.samples.is_empty() && total > 0 {
            stats.samples.push((self.describe)(env.tier, 0));
            stats.samples.push((self.describe)(env.tier, total / 2));
            stats.samples.push((self.describe)(env.tier, total - 1));
        }
        PartReport {
            name: self.name.to_string(),
            kind: "enumerated",
            stats,
            failures,
            wall_s: t0.elapsed().as_secs_f64(),
            exhaustive: (self.exhaustive)(env.tier),
            space_size: Some(total),
            required_classes: self.required_classes.to_vec(),
            rule: self.rule,
        }
    }
    fn replay(&self, case: &Value, tier: Tier) -> Result<(), String> {
        let i = case["index"].as_u64().ok_or("bad enum case: no index")?;
        let mut st = Stats::new(tier, vec![]);
        st.recording = false;
        match guard(|| (self.check)(i, &mut st)) {
            Ok(r) => r,
            Err(p) => Err(format!("[uncaught-panic {}] {}", p.site(), p.0)),
        }
    }
}

// ---------------------------------------------------------------------------
// property

pub struct Property {
    pub id: &'static str,
    pub rule: &'static str,
    pub assumptions: &'static [&'static str],
    pub parts: Vec<Box<dyn Part>>,
}

pub fn verif_root() -> String {
    std::env::var("VERIF_ROOT").unwrap_or_else(|_| "/verif".to_string())
}

pub fn write_replay(prop: &str, tier: Tier, seed: u64, f: &Failure) -> String {
    let root = verif_root();
    let dir = format!("{}/replays/{}", root, prop);
    let _ = std::fs::create_dir_all(&dir);
    let body = json!({
        "property": prop,
        "part": f.part,
        "tier": tier.name(),
        "seed": seed,
        "case": f.case,
        "message": f.message,
    });
    let txt = serde_json::to_string_pretty(&body).unwrap();
    let h = hash_of(&txt);
    let path = format!("{}/{:016x}.json", dir, h);
    let _ = std::fs::write(&path, txt);
    path
}

/// exit code: 0 held, 1 violation, 2 inconclusive
pub fn run_property(p: &Property, tier: Tier, seed: u64) -> i32 {
    let t0 = Instant::now();
    let root = verif_root();
    let known = load_known(&root, p.id);
    let threads = std::env::var("VERIF_THREADS")
        .ok()
        .and_then(|s| s.parse().ok())
        .unwrap_or_else(|| {
            std::thread::available_parallelism()
                .map(|n| n.get())
                .unwrap_or(4)
                .min(16)
        });
    let env = Env {
        tier,
        seed,
        threads,
        known: known.clone(),
        property: p.id,
    };

    let mut violations = 0;
    let mut inconclusive: Vec<String> = vec![];
    let mut lines: Vec<String> = vec![];

    // regression layer: committed replay files of earlier findings
    let regress_dir = format!("{}/regress/{}", root, p.id);
    let mut regress_run = 0u64;
    if let Ok(rd) = std::fs::read_dir(&regress_dir) {
        let mut files: Vec<_> = rd.filter_map(|e| e.ok()).map(|e| e.path()).collect();
        files.sort();
        for f in files {
            if f.extension().map(|e| e == "json").unwrap_or(false) {
                regress_run += 1;
                let path = f.to_string_lossy().to_string();
                match replay_file(p, &path, tier) {
                    Ok(()) => {}
                    Err(ReplayErr::Violation(m)) => {
                        let sig = m
                            .strip_prefix('[')
                            .and_then(|s| s.split(']').next())
                            .unwrap_or("")
                            .to_string();
                        if known.iter().any(|k| k.signature == sig) {
                            continue;
                        }
                        violations += 1;
                        lines.push(format!("VIOLATION property={} replay={}", p.id, path));
                        eprintln!("regression {} failed: {}", path, m);
                    }
                    Err(ReplayErr::Bad(m)) => inconclusive.push(format!("regress {}: {}", path, m)),
                }
            }
        }
    }

    let mut reports = vec![];
    for part in &p.parts {
        if let Ok(only) = std::env::var("VERIF_PART") {
            if !only.is_empty() && only != part.name() {
                continue;
            }
        }
        let rep = part.run(&env);
        eprintln!(
            "  part {:<24} {:>12} evals  {:>10} nontrivial  {:>7.2}s  {}",
            rep.name,
            rep.stats.evaluations,
            rep.stats.distinct_nontrivial(),
            rep.wall_s,
            if rep.failures.is_empty() { "ok" } else { "FAIL" }
        );
        for f in &rep.failures {
            if f.message.starts_with("[harness") {
                inconclusive.push(format!("{}: {}", f.part, f.message));
                continue;
            }
            violations += 1;
            let path = write_replay(p.id, tier, seed, f);
            lines.push(format!("VIOLATION property={} replay={}", p.id, path));
            eprintln!("  failure in part {}: {}", f.part, f.message);
            eprintln!("  case: {}", serde_json::to_string(&f.case).unwrap_or_default());
        }
        if rep.failures.is_empty() {
            for c in &rep.required_classes {
                if rep.stats.classes.get(c).copied().unwrap_or(0) == 0 {
                    inconclusive.push(format!(
                        "part {}: required class '{}' never generated (generator health)",
                        rep.name, c
                    ));
                }
            }
        }
        reports.push(rep);
    }

    // evidence
    let mut evaluations = 0u64;
    let mut nt = 0u64;
    let mut samples: Vec<Value> = vec![];
    let mut parts_json = vec![];
    let mut classes_all: BTreeMap<String, u64> = BTreeMap::new();
    let mut excluded: BTreeMap<String, u64> = BTreeMap::new();
    let mut any_exhaustive = false;
    let mut all_exhaustive = !reports.is_empty();
    for r in &reports {
        evaluations += r.stats.evaluations;
        nt += r.stats.distinct_nontrivial();
        for s in r.stats.samples.iter().take(4) {
            samples.push(json!({"part": r.name, "case": s}));
        }
        for (k, v) in &r.stats.classes {
            *classes_all.entry(format!("{}/{}", r.name, k)).or_insert(0) += v;
        }
        for (k, v) in &r.stats.excluded_known {
            *excluded.entry(k.clone()).or_insert(0) += v;
        }
        any_exhaustive |= r.exhaustive;
        all_exhaustive &= r.exhaustive;
        parts_json.push(json!({
            "part": r.name,
            "kind": r.kind,
            "rule": r.rule,
            "evaluations": r.stats.evaluations,
            "distinct_nontrivial": r.stats.distinct_nontrivial(),
            "exhaustive": r.exhaustive,
            "space_size": r.space_size,
            "wall_s": r.wall_s,
            "failures": r.failures.len(),
        }));
    }
    for k in &known {
        println!("KNOWN-FINDING: property={} {} [{}] (excluded cases this run: {})",
            p.id, k.what, k.signature, excluded.get(&k.signature).copied().unwrap_or(0));
    }
    let wall = t0.elapsed().as_secs_f64();
    let evidence = json!({
        "property_id": p.id,
        "tier": tier.name(),
        "seed": seed,
        "level": "exploration",
        "coverage": {
            "evaluations": evaluations,
            "distinct_nontrivial": nt,
            "rule": p.rule,
            "samples": samples,
            "exhaustive": all_exhaustive,
            "some_parts_exhaustive": any_exhaustive,
            "parts": parts_json,
            "classes": classes_all,
            "excluded_known": excluded,
            "regression_replays_run": regress_run,
            "threads": threads,
        },
        "assumptions": p.assumptions,
        "wall_s": wall,
        "violations": violations,
        "inconclusive": inconclusive,
    });
    let edir = format!("{}/evidence", root);
    let _ = std::fs::create_dir_all(&edir);
    let epath = format!("{}/{}.json", edir, p.id);
    if let Err(e) = std::fs::write(&epath, serde_json::to_string_pretty(&evidence).unwrap()) {
        eprintln!("cannot write evidence {}: {}", epath, e);
        return 2;
    }
    for l in &lines {
        println!("{}", l);
    }
    if violations > 0 {
        println!("{} {}: {} violation(s) in {:.1}s", p.id, tier.name(), violations, wall);
        return 1;
    }
    if !inconclusive.is_empty() {
        for m in &inconclusive {
            println!("INCONCLUSIVE property={} {}", p.id, m);
        }
        return 2;
    }
    println!(
        "{} {}: held on {} evaluations ({} distinct non-trivial) in {:.1}s",
        p.id,
        tier.name(),
        evaluations,
        nt,
        wall
    );
    0
}

pub enum ReplayErr {
    Violation(String),
    Bad(String),
}

pub fn replay_file(p: &Property, path: &str, tier: Tier) -> Result<(), ReplayErr> {
    let txt = std::fs::read_to_string(path).map_err(|e| ReplayErr::Bad(format!("read: {e}")))?;
    let v: Value = serde_json::from_str(&txt).map_err(|e| ReplayErr::Bad(format!("json: {e}")))?;
    let part = v["part"].as_str().ok_or(ReplayErr::Bad("no part".into()))?;
    // enumerated parts decode indices per tier: replay under the tier the case was found in
    let tier = match v["tier"].as_str() {
        Some("thorough") => Tier::Thorough,
        Some("quick") => Tier::Quick,
        _ => tier,
    };
    for pt in &p.parts {
        if pt.name() == part {
            return pt.replay(&v["case"], tier).map_err(|m| {
                if m.starts_with("bad case") || m.starts_with("bad enum case") {
                    ReplayErr::Bad(m)
                } else {
                    ReplayErr::Violation(m)
                }
            });
        }
    }
    Err(ReplayErr::Bad(format!("unknown part {part}")))
}

/// helper for strategies: boxed
pub fn bx<S: Strategy + 'static>(s: S) -> BoxedStrategy<S::Value>
where
    S::Value: Debug,
{
    s.boxed()
}

#[allow(dead_code)]
fn _unused<V: ValueTree>(_: V) {}
