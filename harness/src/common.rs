//! Shared case vocabulary, generators and drivers.

use crate::engine::{guard, Panicked};
use crate::oracle::refcodec::{Mand, RefPacket};
use crate::oracle::refcrc;
use dvb_gse_rust::crc::DefaultCrc;
use dvb_gse_rust::gse_decap::{
    DecapContext, DecapError, DecapMemoryError, DecapStatus, Decapsulator, GseDecapMemory,
    SimpleGseMemory,
};
use dvb_gse_rust::gse_encap::{ContextFrag, EncapError, EncapMetadata, EncapStatus, Encapsulator};
use dvb_gse_rust::header_extension::{
    Extension, MandatoryHeaderExt, MandatoryHeaderExtensionManager,
};
use dvb_gse_rust::label::Label;
use proptest::prelude::*;
use serde::{Deserialize, Serialize};

// ---------------------------------------------------------------------------
// labels

#[derive(Clone, Copy, Debug, PartialEq, Eq, Hash, Serialize, Deserialize)]
pub enum Lab {
    Six([u8; 6]),
    Three([u8; 3]),
    Broadcast,
    ReUse,
}

impl Lab {
    pub fn to_label(self) -> Label {
        match self {
            Lab::Six(b) => Label::SixBytesLabel(b),
            Lab::Three(b) => Label::ThreeBytesLabel(b),
            Lab::Broadcast => Label::Broadcast,
            Lab::ReUse => Label::ReUse,
        }
    }
    pub fn of(l: &Label) -> Lab {
        match l {
            Label::SixBytesLabel(b) => Lab::Six(*b),
            Label::ThreeBytesLabel(b) => Lab::Three(*b),
            Label::Broadcast => Lab::Broadcast,
            Label::ReUse => Lab::ReUse,
        }
    }
    pub fn bytes(&self) -> Vec<u8> {
        match self {
            Lab::Six(b) => b.to_vec(),
            Lab::Three(b) => b.to_vec(),
            _ => vec![],
        }
    }
    pub fn len(&self) -> usize {
        match self {
            Lab::Six(_) => 6,
            Lab::Three(_) => 3,
            _ => 0,
        }
    }
    /// label-type bits per ETSI TS 102 606
    pub fn lt(&self) -> u8 {
        match self {
            Lab::Six(_) => 0,
            Lab::Three(_) => 1,
            Lab::Broadcast => 2,
            Lab::ReUse => 3,
        }
    }
    pub fn is_zero6(&self) -> bool {
        matches!(self, Lab::Six(b) if b.iter().all(|x| *x == 0))
    }
    pub fn is_addr(&self) -> bool {
        matches!(self, Lab::Six(_) | Lab::Three(_))
    }
    pub fn from_wire(lt: u8, bytes: &[u8]) -> Lab {
        match lt & 3 {
            0 => Lab::Six(bytes.try_into().unwrap_or([0; 6])),
            1 => Lab::Three(bytes.try_into().unwrap_or([0; 3])),
            2 => Lab::Broadcast,
            _ => Lab::ReUse,
        }
    }
}

pub const ALPHA6: [[u8; 6]; 3] = [
    [0x02, 0x00, 0x00, 0x00, 0x00, 0x01],
    [0x02, 0x00, 0x00, 0x00, 0x00, 0x02],
    [0x00, 0x00, 0x00, 0x00, 0x00, 0x01],
];
pub const ALPHA3: [[u8; 3]; 3] = [[0xAA, 0xBB, 0xCC], [0x00, 0x00, 0x00], [0x00, 0x00, 0x01]];
/// values a special case or a partial comparison would single out: all-ones, differing from ALPHA6[0] only in
/// the leading / only in one middle byte, zero tail, zero head, equal to the padding pattern in all but one byte
pub const SPECIAL6: [[u8; 6]; 8] = [
    [0xFF; 6],
    [0x06, 0x01, 0x00, 0x00, 0x00, 0x01],
    [0x02, 0x00, 0x00, 0x80, 0x00, 0x01],
    [0x02, 0x11, 0x00, 0x00, 0x00, 0x00],
    [0x00, 0x00, 0x00, 0x00, 0x10, 0x20],
    [0xFF, 0xFF, 0xFF, 0xFF, 0xFF, 0xFE],
    [0x80, 0x00, 0x00, 0x00, 0x00, 0x00],
    [0x02, 0x00, 0x00, 0x00, 0x00, 0x00],
];
pub const SPECIAL3: [[u8; 3]; 5] = [[0xFF; 3], [0x02, 0x00, 0x00], [0x00, 0x80, 0x00], [0xFF, 0xFF, 0xFE], [0x00, 0x00, 0x02]];

/// non-zero 6-byte, 3-byte (incl. 000000), broadcast; biased to a small alphabet so that
/// re-use substitution happens in streams.
pub fn lab_addr_or_bcast() -> impl Strategy<Value = Lab> {
    prop_oneof![
        4 => (0usize..3).prop_map(|i| Lab::Six(ALPHA6[i])),
        4 => (0usize..3).prop_map(|i| Lab::Three(ALPHA3[i])),
        2 => (0usize..SPECIAL6.len()).prop_map(|i| Lab::Six(SPECIAL6[i])),
        1 => (0usize..SPECIAL3.len()).prop_map(|i| Lab::Three(SPECIAL3[i])),
        2 => any::<[u8; 6]>().prop_map(|mut b| { if b.iter().all(|x| *x == 0) { b[5] = 1; } Lab::Six(b) }),
        2 => any::<[u8; 3]>().prop_map(Lab::Three),
        2 => Just(Lab::Broadcast),
    ]
}

/// as above plus explicit re-use
pub fn lab_any_valid() -> impl Strategy<Value = Lab> {
    prop_oneof![
        8 => lab_addr_or_bcast(),
        1 => Just(Lab::ReUse),
    ]
}

/// everything including the forbidden zero 6-byte label
pub fn lab_any() -> impl Strategy<Value = Lab> {
    prop_oneof![
        10 => lab_any_valid(),
        1 => Just(Lab::Six([0; 6])),
    ]
}

// ---------------------------------------------------------------------------
// protocol types

pub fn ptype_user() -> impl Strategy<Value = u16> {
    prop_oneof![
        6 => 0x0600u16..=0xFFFF,
        1 => Just(0x0600u16),
        1 => Just(0x0601u16),
        1 => Just(0x0800u16),
        1 => Just(0x86DDu16),
        1 => Just(0xFFFFu16),
    ]
}

pub fn ptype_any() -> impl Strategy<Value = u16> {
    prop_oneof![
        6 => ptype_user(),
        2 => 0x0000u16..0x0100,
        1 => prop_oneof![Just(0x0081u16), Just(0x0082u16), Just(0x00FFu16), Just(0u16)],
        2 => 0x0100u16..0x0600,
        1 => prop_oneof![Just(0x0100u16), Just(0x05FFu16)],
    ]
}

// ---------------------------------------------------------------------------
// PDUs

#[derive(Clone, Copy, Debug, PartialEq, Eq, Hash, Serialize, Deserialize)]
pub struct Pdu {
    pub len: u32,
    /// 0 = all zero, 1 = all 0xFF, 2 = index bytes, else pseudo-random stream
    pub seed: u32,
}

impl Pdu {
    pub fn bytes(&self) -> Vec<u8> {
        pdu_bytes(self.len as usize, self.seed)
    }
}

pub fn pdu_bytes(len: usize, seed: u32) -> Vec<u8> {
    match seed {
        0 => vec![0u8; len],
        1 => vec![0xFFu8; len],
        2 => (0..len).map(|i| i as u8).collect(),
        _ => {
            let mut x = (seed as u64) | ((seed as u64) << 32) | 1;
            let mut v = Vec::with_capacity(len);
            while v.len() < len {
                x ^= x << 13;
                x ^= x >> 7;
                x ^= x << 17;
                let b = x.to_le_bytes();
                let take = (len - v.len()).min(8);
                v.extend_from_slice(&b[..take]);
            }
            v
        }
    }
}

pub fn pdu_seed() -> impl Strategy<Value = u32> {
    prop_oneof![
        1 => 0u32..3,
        8 => 3u32..=u32::MAX,
    ]
}

/// PDU length classes for complete packets: 0, 1, small, medium, just under the 4095 limit.
pub fn pdu_len_complete() -> impl Strategy<Value = u32> {
    prop_oneof![
        1 => Just(0u32),
        1 => Just(1u32),
        4 => 2u32..=64,
        3 => 65u32..=1500,
        2 => 1501u32..=4080,
        4 => 4081u32..=4093,
    ]
}

/// PDU length classes over the whole 16-bit space, biased to every limit.
pub fn pdu_len_any16() -> impl Strategy<Value = u32> {
    prop_oneof![
        1 => Just(0u32),
        1 => Just(1u32),
        4 => 2u32..=64,
        3 => 65u32..=1500,
        2 => 1501u32..=4080,
        4 => 4081u32..=4110,
        3 => 4111u32..=20000,
        2 => 20001u32..=65500,
        3 => 65501u32..=65535,
    ]
}

/// PDU lengths 0..=70000 (C09/C18: also above the 16-bit limit)
pub fn pdu_len_any70k() -> impl Strategy<Value = u32> {
    prop_oneof![
        12 => pdu_len_any16(),
        2 => 65536u32..=70000,
        1 => 65520u32..=65540,
    ]
}

// ---------------------------------------------------------------------------
// buffer-size specs

#[derive(Clone, Copy, Debug, PartialEq, Eq, Hash, Serialize, Deserialize)]
pub enum BufSpec {
    /// absolute size
    Abs(u32),
    /// exact size of the packet that would finish the job (complete packet on a first
    /// call; end packet on a continuation) plus d
    FitPlus(i32),
    /// continuation: 3 + remaining + d (room for the payload but not the CRC when 0<=d<4);
    /// first call: same as FitPlus
    RemPlus(i32),
    /// header of a first fragment (7 + label) + d on a first call; 3 + d on a continuation
    HdrPlus(i32),
}

impl BufSpec {
    /// resolve for a first call (encap/encap_ext): `l` = length of the passed label,
    /// `ext` = extension-area bytes
    pub fn first(&self, pdu_len: usize, l: usize, ext: usize) -> usize {
        let v: i64 = match *self {
            BufSpec::Abs(n) => n as i64,
            BufSpec::FitPlus(d) | BufSpec::RemPlus(d) => (4 + l + ext + pdu_len) as i64 + d as i64,
            BufSpec::HdrPlus(d) => (7 + l + ext) as i64 + d as i64,
        };
        v.clamp(0, 70000) as usize
    }
    /// resolve for a continuation call
    pub fn cont(&self, remaining: usize) -> usize {
        let v: i64 = match *self {
            BufSpec::Abs(n) => n as i64,
            BufSpec::FitPlus(d) => (7 + remaining) as i64 + d as i64,
            BufSpec::RemPlus(d) => (3 + remaining) as i64 + d as i64,
            BufSpec::HdrPlus(d) => 3 + d as i64,
        };
        v.clamp(0, 70000) as usize
    }
}

pub fn bufspec_any() -> impl Strategy<Value = BufSpec> {
    prop_oneof![
        3 => (0u32..=13).prop_map(BufSpec::Abs),
        3 => (14u32..=200).prop_map(BufSpec::Abs),
        3 => (200u32..=4097).prop_map(BufSpec::Abs),
        2 => (4090u32..=4110).prop_map(BufSpec::Abs),
        2 => (4098u32..=70000).prop_map(BufSpec::Abs),
        3 => (-8i32..=8).prop_map(BufSpec::FitPlus),
        3 => (-4i32..=8).prop_map(BufSpec::RemPlus),
        2 => (-4i32..=40).prop_map(BufSpec::HdrPlus),
    ]
}

/// buffers that are always >= 13 bytes (C02 tail) and useful sizes
pub fn bufspec_ge13() -> impl Strategy<Value = BufSpec> {
    prop_oneof![
        3 => (13u32..=64).prop_map(BufSpec::Abs),
        3 => (65u32..=4097).prop_map(BufSpec::Abs),
        1 => (4098u32..=70000).prop_map(BufSpec::Abs),
    ]
}

// ---------------------------------------------------------------------------
// extensions

#[derive(Clone, Debug, PartialEq, Eq, Hash, Serialize, Deserialize)]
pub struct ExtSpec {
    pub id: u16,
    pub data: Vec<u8>,
}

impl ExtSpec {
    pub fn build(&self) -> Result<Extension, String> {
        match guard(|| Extension::new(self.id, &self.data)) {
            Ok(Ok(e)) => Ok(e),
            Ok(Err(e)) => Err(format!("Extension::new({:#06x}, {} bytes) -> {:?}", self.id, self.data.len(), e)),
            Err(p) => Err(format!("Extension::new panicked: {}", p.0)),
        }
    }
    pub fn wire_len(&self) -> usize {
        2 + self.data.len()
    }
}

/// optional extension of any H-LEN class with correctly sized data
pub fn ext_optional() -> impl Strategy<Value = ExtSpec> {
    (1u16..=5, any::<u8>(), any::<[u8; 8]>()).prop_map(|(h, low, d)| {
        let n = [0usize, 0, 2, 4, 6, 8][h as usize];
        ExtSpec { id: (h << 8) | low as u16, data: d[..n].to_vec() }
    })
}

/// The harness's table of mandatory extension ids: (id, final?, data size).
/// Non-final ids 0x0001..=0x0009 carry id-1 bytes... kept small and explicit.
pub const MAND_NONFINAL: [(u16, usize); 6] = [(0x0001, 0), (0x0002, 1), (0x0003, 2), (0x0010, 3), (0x0044, 5), (0x00C8, 8)];
pub const MAND_FINAL: [(u16, usize); 5] = [(0x0081, 0), (0x0082, 0), (0x0090, 2), (0x00FE, 4), (0x0000, 1)];

pub fn mand_lookup(id: u16) -> Mand {
    for (i, n) in MAND_NONFINAL {
        if i == id {
            return Mand::NonFinal(n);
        }
    }
    for (i, n) in MAND_FINAL {
        if i == id {
            return Mand::Final(n);
        }
    }
    Mand::Unknown
}

pub fn ext_mand_nonfinal() -> impl Strategy<Value = ExtSpec> {
    (0usize..MAND_NONFINAL.len(), any::<[u8; 8]>()).prop_map(|(i, d)| {
        let (id, n) = MAND_NONFINAL[i];
        ExtSpec { id, data: d[..n].to_vec() }
    })
}
pub fn ext_mand_final() -> impl Strategy<Value = ExtSpec> {
    (0usize..MAND_FINAL.len(), any::<[u8; 8]>()).prop_map(|(i, d)| {
        let (id, n) = MAND_FINAL[i];
        ExtSpec { id, data: d[..n].to_vec() }
    })
}

/// Manager that knows a subset (bit mask over MAND_NONFINAL ++ MAND_FINAL) of the table.
#[derive(Clone, Copy, Debug)]
pub struct TableManager {
    pub mask: u32,
}
impl TableManager {
    pub fn all() -> Self {
        TableManager { mask: u32::MAX }
    }
    pub fn knows(&self, id: u16) -> bool {
        !matches!(self.lookup(id), Mand::Unknown)
    }
    pub fn lookup(&self, id: u16) -> Mand {
        for (k, (i, n)) in MAND_NONFINAL.iter().enumerate() {
            if *i == id && self.mask & (1 << k) != 0 {
                return Mand::NonFinal(*n);
            }
        }
        for (k, (i, n)) in MAND_FINAL.iter().enumerate() {
            if *i == id && self.mask & (1 << (k + MAND_NONFINAL.len())) != 0 {
                return Mand::Final(*n);
            }
        }
        Mand::Unknown
    }
}
impl MandatoryHeaderExtensionManager for TableManager {
    fn is_mandatory_header_id_known(&self, id: u16) -> MandatoryHeaderExt {
        match self.lookup(id) {
            Mand::Unknown => MandatoryHeaderExt::Unknown,
            Mand::Final(n) => MandatoryHeaderExt::Final(n as u8),
            Mand::NonFinal(n) => MandatoryHeaderExt::NonFinal(n as u8),
        }
    }
}

// ---------------------------------------------------------------------------
// encapsulator helpers

pub type Enc = Encapsulator<DefaultCrc>;

pub fn new_enc() -> Enc {
    Encapsulator::new(DefaultCrc {})
}

#[derive(Clone, Copy, Debug, PartialEq, Eq, Hash, Serialize, Deserialize)]
pub enum ReuseCfg {
    Default,
    Disabled,
    Enabled,
    Max(u8),
}

pub fn apply_reuse(enc: &mut Enc, c: ReuseCfg) {
    match c {
        ReuseCfg::Default => {}
        ReuseCfg::Disabled => enc.disable_re_use_label(),
        ReuseCfg::Enabled => enc.enable_re_use_label(),
        ReuseCfg::Max(n) => enc.enable_re_use_label_with_max_consecutive(n),
    }
}

pub fn reuse_cfg() -> impl Strategy<Value = ReuseCfg> {
    prop_oneof![
        3 => Just(ReuseCfg::Default),
        2 => Just(ReuseCfg::Disabled),
        1 => Just(ReuseCfg::Enabled),
        2 => (0u8..=4).prop_map(ReuseCfg::Max),
        1 => any::<u8>().prop_map(ReuseCfg::Max),
        1 => prop_oneof![Just(255u8), Just(254u8), Just(128u8), Just(1u8)].prop_map(ReuseCfg::Max),
    ]
}

#[derive(Clone, Copy, Debug, PartialEq, Eq)]
pub enum Kind {
    Complete,
    First,
    Intermediate,
    End,
}

pub fn kind_of_header(b0: u8) -> Kind {
    match (b0 & 0x80 != 0, b0 & 0x40 != 0) {
        (true, true) => Kind::Complete,
        (true, false) => Kind::First,
        (false, false) => Kind::Intermediate,
        (false, true) => Kind::End,
    }
}

pub type EncRes = Result<Result<EncapStatus, EncapError>, Panicked>;

pub fn call_encap(enc: &mut Enc, pdu: &[u8], frag_id: u8, ptype: u16, lab: Lab, buf: &mut [u8]) -> EncRes {
    let md = EncapMetadata::new(ptype, lab.to_label());
    guard(|| enc.encap(pdu, frag_id, md, buf))
}

pub fn call_encap_ext(
    enc: &mut Enc,
    pdu: &[u8],
    frag_id: u8,
    ptype: u16,
    lab: Lab,
    buf: &mut [u8],
    exts: Vec<Extension>,
) -> EncRes {
    let md = EncapMetadata::new(ptype, lab.to_label());
    guard(|| enc.encap_ext(pdu, frag_id, md, buf, exts))
}

pub fn call_encap_frag(enc: &Enc, pdu: &[u8], ctx: &ContextFrag, buf: &mut [u8]) -> EncRes {
    guard(|| enc.encap_frag(pdu, ctx, buf))
}

/// Send one PDU completely with well-behaved buffers; returns the packets.
/// `first_buf`: size of the first buffer, `cont_buf`: size of every continuation buffer (>= 7 recommended).
pub fn send_pdu(
    enc: &mut Enc,
    pdu: &[u8],
    frag_id: u8,
    ptype: u16,
    lab: Lab,
    exts: &[ExtSpec],
    first_buf: usize,
    cont_buf: usize,
) -> Result<Vec<Vec<u8>>, String> {
    let mut out = vec![];
    let mut buf = vec![0u8; first_buf];
    let r = if exts.is_empty() {
        call_encap(enc, pdu, frag_id, ptype, lab, &mut buf)
    } else {
        let mut v = vec![];
        for e in exts {
            v.push(e.build()?);
        }
        call_encap_ext(enc, pdu, frag_id, ptype, lab, &mut buf, v)
    };
    let mut ctx = match r {
        Err(p) => return Err(format!("encap panicked: {}", p.0)),
        Ok(Err(e)) => return Err(format!("encap error {:?}", e)),
        Ok(Ok(EncapStatus::CompletedPkt(n))) => {
            out.push(buf[..n as usize].to_vec());
            return Ok(out);
        }
        Ok(Ok(EncapStatus::FragmentedPkt(n, ctx))) => {
            out.push(buf[..n as usize].to_vec());
            ctx
        }
    };
    let mut guard_n = 0;
    loop {
        guard_n += 1;
        if guard_n > 70000 {
            return Err("send_pdu: no completion after 70000 continuation calls".into());
        }
        let mut buf = vec![0u8; cont_buf];
        match call_encap_frag(enc, pdu, &ctx, &mut buf) {
            Err(p) => return Err(format!("encap_frag panicked: {}", p.0)),
            Ok(Err(e)) => return Err(format!("encap_frag error {:?}", e)),
            Ok(Ok(EncapStatus::CompletedPkt(n))) => {
                out.push(buf[..n as usize].to_vec());
                return Ok(out);
            }
            Ok(Ok(EncapStatus::FragmentedPkt(n, c))) => {
                out.push(buf[..n as usize].to_vec());
                ctx = c;
            }
        }
    }
}

// ---------------------------------------------------------------------------
// RefCodec-built valid traffic (independent of the encapsulator)

/// A complete packet built by RefCodec.
pub fn ref_complete(lab: Lab, ptype: u16, pdu: &[u8], exts: &[ExtSpec], final_mand: bool) -> Vec<u8> {
    RefPacket {
        start: true,
        end: true,
        lt: lab.lt(),
        frag_id: None,
        total_len: None,
        label: lab.bytes(),
        exts: exts.iter().map(|e| (e.id, e.data.clone())).collect(),
        ptype: Some(ptype),
        first_type: None,
        payload: pdu.to_vec(),
        crc: None,
    }
    .encode(final_mand)
}

/// A fragment train built by RefCodec.  `cuts`: payload sizes of first, intermediates...;
/// whatever remains goes in the end packet.  `crc_label`: label bytes as carried in the first
/// fragment (empty for re-use / broadcast).
pub fn ref_train(lab: Lab, ptype: u16, frag_id: u8, pdu: &[u8], cuts: &[usize]) -> Vec<Vec<u8>> {
    ref_train_ext(lab, ptype, frag_id, pdu, cuts, &[])
}

/// like `ref_train`, the first fragment carrying a chain of (non-final) extensions
pub fn ref_train_ext(lab: Lab, ptype: u16, frag_id: u8, pdu: &[u8], cuts: &[usize], exts: &[ExtSpec]) -> Vec<Vec<u8>> {
    let ext_area: usize = if exts.is_empty() { 0 } else { exts.iter().map(|e| e.wire_len()).sum() };
    let label = lab.bytes();
    let total_len = (2 + label.len() + pdu.len()) as u16;
    let crc = refcrc::gse_crc(total_len, ptype, &label, pdu);
    let mut out = vec![];
    let mut pos = 0usize;
    // respect the 4095-byte GSE length: first <= 4090 - L, intermediate <= 4094, end <= 4090;
    // extra intermediates are added when what remains does not fit an end packet
    let mut cuts: Vec<usize> = cuts.to_vec();
    if cuts.is_empty() {
        cuts.push(pdu.len().min(1));
    }
    let mut i = 0usize;
    loop {
        let is_first = i == 0;
        let cap = if is_first { 4090 - label.len() - ext_area } else { 4094 };
        let remaining = pdu.len() - pos;
        let n = if i < cuts.len() {
            cuts[i].min(cap).min(remaining)
        } else if remaining > 4090 {
            cap.min(remaining - 1)
        } else {
            break;
        };
        let p = RefPacket {
            start: is_first,
            end: false,
            lt: if is_first { lab.lt() } else { 3 },
            frag_id: Some(frag_id),
            total_len: if is_first { Some(total_len) } else { None },
            label: if is_first { label.clone() } else { vec![] },
            exts: if is_first { exts.iter().map(|e| (e.id, e.data.clone())).collect() } else { vec![] },
            ptype: if is_first { Some(ptype) } else { None },
            first_type: None,
            payload: pdu[pos..pos + n].to_vec(),
            crc: None,
        };
        // an intermediate packet must carry at least one byte
        if is_first || n > 0 {
            out.push(p.encode(false));
            pos += n;
        }
        i += 1;
    }
    out.push(
        RefPacket {
            start: false,
            end: true,
            lt: 3,
            frag_id: Some(frag_id),
            total_len: None,
            label: vec![],
            exts: vec![],
            ptype: None,
            first_type: None,
            payload: pdu[pos..].to_vec(),
            crc: Some(crc),
        }
        .encode(false),
    );
    out
}

// ---------------------------------------------------------------------------
// Ledger memory: wraps any GseDecapMemory and records every buffer crossing the
// trait boundary.  Buffer identity = its length (the harness provisions pairwise
// distinct lengths; Box<[u8]> cannot be resized).

#[derive(Clone, Copy, Debug, PartialEq, Eq, Hash, Serialize, Deserialize)]
pub enum MemOp {
    Provision,
    NewPdu,
    NewFrag,
    TakeFrag,
    SaveFrag,
}

#[derive(Default, Debug)]
pub struct Ledger {
    /// multiset of buffer lengths currently inside the memory, according to boundary crossings
    pub inside: Vec<usize>,
    /// buffers that left the memory since the last `begin_call` and did not go back
    pub out_in_call: Vec<usize>,
    /// buffers swallowed by an injected save_frag failure (count as inside)
    pub quarantine: Vec<Box<[u8]>>,
    pub counts: [u32; 5],
    /// (op, n): fail the n-th (1-based) call of op
    pub faults: Vec<(MemOp, u32)>,
    pub injected: u32,
    pub calls: u64,
    /// number of buffers that left the memory since the last `begin_call`
    pub took_in_call: u32,
}

pub struct LedgerMemory<M: GseDecapMemory> {
    pub inner: M,
    pub ledger: Ledger,
}

fn remove_one(v: &mut Vec<usize>, x: usize) -> bool {
    if let Some(i) = v.iter().position(|y| *y == x) {
        v.swap_remove(i);
        true
    } else {
        false
    }
}

impl Ledger {
    fn fault(&mut self, op: MemOp) -> bool {
        self.calls += 1;
        let idx = op as usize;
        self.counts[idx] += 1;
        let n = self.counts[idx];
        if self.faults.iter().any(|(o, k)| *o == op && *k == n) {
            self.injected += 1;
            true
        } else {
            false
        }
    }
    fn goes_in(&mut self, len: usize) {
        self.inside.push(len);
        remove_one(&mut self.out_in_call, len);
    }
    fn comes_out(&mut self, len: usize) {
        remove_one(&mut self.inside, len);
        self.out_in_call.push(len);
        self.took_in_call += 1;
    }
    pub fn begin_call(&mut self) {
        self.out_in_call.clear();
        self.took_in_call = 0;
    }
}

impl<M: GseDecapMemory> LedgerMemory<M> {
    pub fn wrap(inner: M) -> Self {
        LedgerMemory { inner, ledger: Ledger::default() }
    }
}

impl<M: GseDecapMemory> GseDecapMemory for LedgerMemory<M> {
    fn new(a: usize, b: usize, c: usize, d: usize) -> Self {
        LedgerMemory { inner: M::new(a, b, c, d), ledger: Ledger::default() }
    }
    fn provision_storage(&mut self, storage: Box<[u8]>) -> Result<(), DecapMemoryError> {
        if self.ledger.fault(MemOp::Provision) {
            return Err(DecapMemoryError::StorageOverflow(storage));
        }
        let len = storage.len();
        match self.inner.provision_storage(storage) {
            Ok(()) => {
                self.ledger.goes_in(len);
                Ok(())
            }
            Err(e) => Err(e),
        }
    }
    fn new_pdu(&mut self) -> Result<Box<[u8]>, DecapMemoryError> {
        if self.ledger.fault(MemOp::NewPdu) {
            return Err(DecapMemoryError::StorageUnderflow);
        }
        match self.inner.new_pdu() {
            Ok(b) => {
                self.ledger.comes_out(b.len());
                Ok(b)
            }
            Err(e) => Err(e),
        }
    }
    fn new_frag(&mut self, context: DecapContext) -> Result<(DecapContext, Box<[u8]>), DecapMemoryError> {
        if self.ledger.fault(MemOp::NewFrag) {
            return Err(DecapMemoryError::StorageUnderflow);
        }
        match self.inner.new_frag(context) {
            Ok((c, b)) => {
                self.ledger.comes_out(b.len());
                Ok((c, b))
            }
            Err(e) => Err(e),
        }
    }
    fn take_frag(&mut self, frag_id: u8) -> Result<(DecapContext, Box<[u8]>), DecapMemoryError> {
        if self.ledger.fault(MemOp::TakeFrag) {
            return Err(DecapMemoryError::UndefinedId);
        }
        match self.inner.take_frag(frag_id) {
            Ok((c, b)) => {
                self.ledger.comes_out(b.len());
                Ok((c, b))
            }
            Err(e) => Err(e),
        }
    }
    fn save_frag(&mut self, context: (DecapContext, Box<[u8]>)) -> Result<(), DecapMemoryError> {
        let len = context.1.len();
        if self.ledger.fault(MemOp::SaveFrag) {
            self.ledger.goes_in(len);
            self.ledger.quarantine.push(context.1);
            return Err(DecapMemoryError::MemoryCorrupted);
        }
        match self.inner.save_frag(context) {
            Ok(()) => {
                self.ledger.goes_in(len);
                Ok(())
            }
            // the trait does not say what happens to the buffer of a refused save;
            // the bundled memory drops it.  Count it as gone (never reached by decap in
            // practice: decap only saves after take/new on the same slot).
            Err(e) => Err(e),
        }
    }
}

// ---------------------------------------------------------------------------
// decapsulator helpers

pub type Dec<M, H> = Decapsulator<M, DefaultCrc, H>;
pub type SimpleDec = Dec<SimpleGseMemory, TableManager>;
pub type LedgerDec = Dec<LedgerMemory<SimpleGseMemory>, TableManager>;

/// fragment ids: mostly a handful of small ids (so that trains meet), any id, and the ids a width or
/// sign slip would single out
pub fn frag_id_any() -> impl Strategy<Value = u8> {
    prop_oneof![8 => 0u8..6, 2 => any::<u8>(), 1 => Just(255u8), 1 => prop_oneof![Just(254u8), Just(128u8), Just(127u8), Just(64u8)]]
}

/// slot counts are stored in a byte in the cases: 0 stands for 256 (every fragment id its own slot)
pub fn slots_of(s: u8) -> usize {
    if s == 0 {
        256
    } else {
        s as usize
    }
}

pub fn new_simple_dec(slots: usize, pdu_size: usize, bufs: &[usize], mgr: TableManager) -> SimpleDec {
    let mut m = SimpleGseMemory::new(slots, pdu_size, 0, 0);
    for b in bufs {
        let _ = m.provision_storage(vec![0u8; *b].into_boxed_slice());
    }
    Decapsulator::new(m, DefaultCrc {}, mgr)
}

pub fn new_ledger_dec(slots: usize, pdu_size: usize, mgr: TableManager) -> LedgerDec {
    let m = LedgerMemory::wrap(SimpleGseMemory::new(slots, pdu_size, 0, 0));
    Decapsulator::new(m, DefaultCrc {}, mgr)
}

pub type DecRes = Result<Result<(DecapStatus, usize), (DecapError, usize)>, Panicked>;

pub fn call_decap<M: GseDecapMemory, H: MandatoryHeaderExtensionManager>(d: &mut Dec<M, H>, bytes: &[u8]) -> DecRes {
    guard(|| d.decap(bytes))
}

/// short rendering of a decap result for messages
pub fn show_dec(r: &DecRes) -> String {
    match r {
        Err(p) => format!("PANIC {}", p.0),
        Ok(Ok((DecapStatus::CompletedPkt(b, md), n))) => format!(
            "Ok(Completed(buf {} bytes, pdu_len {}, ptype {:#06x}, label {:?}, {} ext), consumed {})",
            b.len(),
            md.pdu_len(),
            md.protocol_type(),
            md.label(),
            md.extensions().len(),
            n
        ),
        Ok(Ok((DecapStatus::FragmentedPkt(md), n))) => format!(
            "Ok(Fragmented(ptype {:#06x}, label {:?}), consumed {})",
            md.protocol_type(),
            md.label(),
            n
        ),
        Ok(Ok((DecapStatus::Padding, n))) => format!("Ok(Padding, consumed {})", n),
        Ok(Err((e, n))) => format!("Err({}, consumed {})", err_kind(e), n),
    }
}

pub fn err_kind(e: &DecapError) -> String {
    match e {
        DecapError::ErrorMemory(DecapMemoryError::StorageOverflow(b)) => format!("ErrorMemory(StorageOverflow({}))", b.len()),
        DecapError::ErrorMemory(DecapMemoryError::BufferTooSmall(b)) => format!("ErrorMemory(BufferTooSmall({}))", b.len()),
        o => format!("{:?}", o),
    }
}

pub fn hex(b: &[u8]) -> String {
    let mut s = String::with_capacity(b.len() * 2);
    for (i, x) in b.iter().enumerate() {
        if i >= 48 {
            s.push_str(&format!("..(+{})", b.len() - i));
            break;
        }
        s.push_str(&format!("{:02x}", x));
    }
    s
}

/// monotone index mapping (shrinks well): i in 0..=65535 -> 0..len
pub fn idx16(i: u16, len: usize) -> usize {
    if len == 0 {
        0
    } else {
        ((i as usize) * len) >> 16
    }
}

// ---------------------------------------------------------------------------
// PDU-length sweeps shared by the enumerated parts of C02 / C06

/// number of lengths swept out of 0..top: thorough = every one; quick = 0..=4200, the last 241 and
/// every 13th in between (offset rotating so that all residues are visited)
pub fn sweep_lens(t: crate::engine::Tier, top: u64) -> u64 {
    match t {
        crate::engine::Tier::Thorough => top,
        crate::engine::Tier::Quick => 4201 + 241 + (top - 241 - 4201) / 13,
    }
}

pub fn sweep_len_at(t: crate::engine::Tier, top: u64, j: u64) -> u32 {
    (match t {
        crate::engine::Tier::Thorough => j,
        crate::engine::Tier::Quick => {
            if j < 4201 {
                j
            } else if j < 4201 + 241 {
                top - 241 + (j - 4201)
            } else {
                (4201 + (j - 4201 - 241) * 13 + (j % 13)).min(top - 1)
            }
        }
    }) as u32
}
