pub mod common;
pub mod engine;
pub mod fuzz;
pub mod fuzzdec;
pub mod oracle {
    pub mod refcodec;
    pub mod refcrc;
    pub mod refrx;
}
pub mod props;
