#![no_main]
//! One libFuzzer target for every generated part of every property: the part is selected with
//! VERIF_FUZZ_TARGET=<ID>/<part>.  The input bytes drive the part's own proptest strategy
//! (pass-through RNG) and the resulting case goes through the same semantic oracle as the
//! proptest runs.  A violation is saved as an ordinary replay file (re-validated by
//! `./check <ID> --replay <file>` before it is reported) and the process aborts.
use libfuzzer_sys::fuzz_target;
use std::sync::OnceLock;

static TARGET: OnceLock<(String, String)> = OnceLock::new();

fn target() -> &'static (String, String) {
    TARGET.get_or_init(|| {
        let t = std::env::var("VERIF_FUZZ_TARGET").expect("set VERIF_FUZZ_TARGET=<ID>/<part>");
        let (p, q) = gse_verif::fuzz::parse_target(&t).expect("VERIF_FUZZ_TARGET=<ID>/<part>");
        gse_verif::fuzz::init(&p);
        (p, q)
    })
}

fuzz_target!(|data: &[u8]| {
    let (p, q) = target();
    if let Err(m) = gse_verif::fuzz::fuzz_one(p, q, data) {
        eprintln!("FUZZ-VIOLATION {}", m);
        std::process::abort();
    }
});
