#!/bin/bash
# fuzz/run.sh <ID>  — coverage-guided campaigns (libFuzzer via cargo-fuzz) for the fuzzable
# parts of property <ID>; called by ./check <ID> thorough after the proptest/enumeration run.
# Fixed work: 16 independent processes x RUNS executions each, seeds derived from VERIF_SEED,
# fresh corpus seeded deterministically.  A crash is re-validated through
# `vcheck <ID> --replay <file>` (the target saves the structured case) before it is reported.
# exit 0 held / 1 violation / 2 inconclusive
set -u
ROOT="$(cd "$(dirname "${BASH_SOURCE[0]}")/.." && pwd)"
: "${VERIF_ROOT:=$ROOT}"
export VERIF_ROOT
ID="$1"
SEED="${VERIF_SEED:-0}"
RUNS_DEFAULT="${VERIF_FUZZ_RUNS:-400000}"
# fixed work per process, scaled down for parts whose cases are expensive (whole sender sessions)
runs_for() {
  if [ -n "${VERIF_FUZZ_RUNS:-}" ]; then echo "$VERIF_FUZZ_RUNS"; return; fi
  case "$1" in
    C06/*) echo 30000 ;;
    C19/*) echo 100000 ;;
    C02/*|C15/*|C11/*|C07/*) echo 150000 ;;
    *) echo "$RUNS_DEFAULT" ;;
  esac
}
JOBS="${VERIF_FUZZ_JOBS:-16}"
VCHECK="$ROOT/harness/target/release/vcheck"
TARGETS=$("$VCHECK" --fuzz-targets | grep "^$ID/" || true)
[ -z "$TARGETS" ] && exit 0
cd "$ROOT/harness" || exit 2
export CARGO_NET_OFFLINE=true
LOG="$(mktemp)"
if ! cargo +nightly fuzz build -s none >"$LOG" 2>&1; then
  echo "INCONCLUSIVE property=$ID fuzz build failed"; tail -5 "$LOG"; rm -f "$LOG"; exit 2
fi
rm -f "$LOG"
BIN="$ROOT/harness/fuzz/target/x86_64-unknown-linux-gnu/release/part_fuzz"
[ -x "$BIN" ] || { echo "INCONCLUSIVE property=$ID fuzz binary missing"; exit 2; }
rc=0
for T in $TARGETS; do
  PART="${T#*/}"
  RUNS=$(runs_for "$T")
  WORK="$ROOT/harness/fuzz/corpus-run/$ID-$PART-$$"
  rm -rf "$WORK"; mkdir -p "$WORK"
  t0=$(date +%s)
  pids=()
  for j in $(seq 1 "$JOBS"); do
    mkdir -p "$WORK/c$j"
    VERIF_SEED=$((SEED * 1000 + j)) "$VCHECK" --seed-corpus "$ID" "$PART" "$WORK/c$j" 8 >/dev/null
    [ -d "$ROOT/corpus/$ID-$PART" ] && cp "$ROOT/corpus/$ID-$PART"/* "$WORK/c$j/" 2>/dev/null
    ( cd "$WORK" && VERIF_FUZZ_TARGET="$T" timeout --signal=KILL "${VERIF_FUZZ_TIMEOUT:-1800}" "$BIN" "c$j" -runs="$RUNS" -seed=$((SEED * 1000 + j + 1)) -len_control=0 -max_len=4096 -artifact_prefix="$WORK/crash-$j-" >"$WORK/log$j" 2>&1; echo $? >"$WORK/rc$j" ) &
    pids+=($!)
  done
  wait "${pids[@]}"
  t1=$(date +%s)
  execs=0; cov=0; corp=0; killed=0
  viol=""
  for j in $(seq 1 "$JOBS"); do
    r=$(cat "$WORK/rc$j" 2>/dev/null || echo 99)
    line=$(grep -E "DONE|pulse|REDUCE|NEW" "$WORK/log$j" | tail -1)
    n=$(grep -oE "^#[0-9]+" <<<"$line" | tr -d '#'); execs=$((execs + ${n:-0}))
    c=$(grep -oE "cov: [0-9]+" <<<"$line" | grep -oE "[0-9]+"); [ "${c:-0}" -gt "$cov" ] && cov=$c
    k=$(grep -oE "corp: [0-9]+" <<<"$line" | grep -oE "[0-9]+"); corp=$((corp + ${k:-0}))
    if [ "$r" = 137 ]; then killed=1; fi
    if [ "$r" != 0 ] && [ "$r" != 137 ]; then
      v=$(grep -m1 "^FUZZ-VIOLATION " "$WORK/log$j" | sed 's/^FUZZ-VIOLATION //; s/ :: .*//')
      if [ -n "$v" ] && [ -f "$v" ]; then viol="$viol $v"; else
        echo "INCONCLUSIVE property=$ID fuzz job $j of $T exited $r without a saved case"; tail -3 "$WORK/log$j"; rc=2
      fi
    fi
  done
  confirmed=0
  for v in $viol; do
    "$VCHECK" "$ID" --replay "$v" >/dev/null 2>&1
    st=$?
    if [ $st -eq 1 ]; then echo "VIOLATION property=$ID replay=$v"; confirmed=$((confirmed + 1)); rc=1; fi
  done
  echo "  fuzz $T: $execs executions in $((t1 - t0)) s on $JOBS processes, coverage counters $cov, corpus $corp, confirmed violations $confirmed"
  [ $killed = 1 ] && { echo "INCONCLUSIVE property=$ID fuzz watchdog for $T"; [ $rc = 0 ] && rc=2; }
  # attach the campaign to the evidence file written by vcheck
  python3 - "$VERIF_ROOT/evidence/$ID.json" "$T" "$execs" "$cov" "$corp" "$((t1 - t0))" "$confirmed" "$JOBS" "$RUNS" <<'PY'
import json, sys
p, t, execs, cov, corp, secs, conf, jobs, runs = sys.argv[1:]
try:
    d = json.load(open(p))
except Exception:
    sys.exit(0)
c = d.setdefault("coverage", {})
c.setdefault("fuzz_campaigns", []).append({"target": t, "engine": "libFuzzer (cargo-fuzz), hand-written arbitrary::Unstructured decoder, same oracle as the generated part",
    "executions": int(execs), "processes": int(jobs), "runs_per_process": int(runs), "coverage_counters": int(cov), "corpus_files": int(corp), "wall_s": int(secs), "confirmed_violations": int(conf)})
c["evaluations"] = int(c.get("evaluations", 0)) + int(execs)
d["violations"] = int(d.get("violations", 0)) + int(conf)
d["wall_s"] = float(d.get("wall_s", 0)) + float(secs)
json.dump(d, open(p, "w"), indent=1)
PY
  rm -rf "$WORK"
done
exit $rc
