#!/bin/bash
# builds the libFuzzer target used by the thorough tiers; a failure here is not fatal for setup
cd "$(dirname "${BASH_SOURCE[0]}")/../harness" || exit 0
export CARGO_NET_OFFLINE=true
cargo +nightly fuzz build -s none >/dev/null 2>&1 || echo "warning: fuzz target not built (thorough tiers will retry and report INCONCLUSIVE if it still fails)"
exit 0
