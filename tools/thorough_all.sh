#!/bin/bash
# tools/thorough_all.sh   full thorough tier of all 20 checks against /repo, then keeps a copy of the
# thorough evidence under evidence_thorough/ (the quick tier rewrites evidence/ afterwards)
cd "$(dirname "${BASH_SOURCE[0]}")/.." || exit 2
./check setup >/dev/null 2>&1
rc=0
for i in 01 02 03 04 05 06 07 08 09 10 11 12 13 14 15 16 17 18 19 20; do
  /usr/bin/time -f "C$i wall %es" ./check C$i thorough 2>&1 | grep -E "^C|VIOLAT|INCONCL|KNOWN|fuzz C"
  [ "${PIPESTATUS[0]}" = 0 ] || rc=1
done
mkdir -p evidence_thorough && cp evidence/C*.json evidence_thorough/
exit $rc
