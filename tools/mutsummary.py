#!/usr/bin/env python3
"""tools/mutsummary.py [results-dir] [--md]   summary of a tools/mutrun.sh run"""
import json, glob, os, sys
from collections import Counter, defaultdict
d = next((a for a in sys.argv[1:] if not a.startswith("--")), "/tmp/mut/results")
rs = [json.load(open(f)) for f in sorted(glob.glob(os.path.join(d, "*.json")), key=lambda p: int(os.path.basename(p)[:-5]))]
st = Counter(r["status"] for r in rs)
print(f"{len(rs)} mutants:", dict(st))
alive = [r for r in rs if r["status"] in ("killed", "hang", "survived", "killed-by-repo-doctests")]
print(f"passing the repository's unit + end-to-end tests: {len(alive)}; killed by a check: {sum(r['status']=='killed' for r in alive)}; "
      f"stopped by the watchdog (inconclusive): {sum(r['status']=='hang' for r in alive)}; survived all 20 checks: {sum(r['status'] in ('survived','killed-by-repo-doctests') for r in alive)}")
by = Counter(r["by"] for r in alive if r["status"] == "killed")
print("first killing check:", dict(sorted(by.items())))
perfile = defaultdict(Counter)
for r in alive:
    perfile[r["mutant"]["file"]][r["status"]] += 1
for f, c in perfile.items():
    print(" ", f, dict(c))
print("survivors / hangs / notes:")
for r in rs:
    if r["status"] in ("survived", "hang", "killed-by-repo-doctests") or r["notes"]:
        m = r["mutant"]
        print(f"  #{r['n']} {m['file']}:{m['line']} {m['kind']} {m['from']!r} -> {m['to']!r}  [{r['status']} {r['by']}] {r['notes']}")
