#!/usr/bin/env python3
"""Regenerates /verif/MANIFEST.json from the table below (single source of truth)."""
import json, os, sys
ROOT = os.path.dirname(os.path.dirname(os.path.abspath(__file__)))

# id -> (technique, level text, design ref, level note)
T = 'Trusted: the harness oracles named in the technique (RefCodec = independent reading of ETSI TS 102 606 / RFC 5163, bitwise CRC reference self-tested against 0x0376E6E7), proptest 1.11, rustc; harness built with overflow checks on so arithmetic wrap in the crate surfaces as a panic.'
CHECKS = {
 'C01': ('proptest streams through a real encapsulator/decapsulator pair, round-trip oracle + RefCodec parse + completeness rule on the written label; exhaustive sweeps over every PDU length 0..=4099 x label case x buffer fit and over every protocol type 0x0600..=0xFFFF',
         "Exploration by generated-input search: streams of PDUs with substitution, limit-length PDUs, exact and > 4097-byte buffers, storages >= PDU. Evidence is 'N cases, M distinct non-trivial, these classes, no counter-example'; absence is not proven.",
         'DESIGN.md §5 C01',
         T),
 'C02': ('proptest buffer-size schedules driven exactly as the statement says; completion bound, then round trip through a real decapsulator; enumerated sweep of every PDU length 1..=65533-L x label case under uniform buffers of 4097 / 70000 / 1021 bytes (exhaustive in the thorough tier)',
         "Exploration by generated-input search: PDUs up to 65533 bytes x schedules of tiny, threshold and > 4097-byte buffers; sender totality for buffers >= 13, conservative completion bound, exact round trip. Evidence is 'N cases, M distinct non-trivial, these classes, no counter-example'; absence is not proven.",
         'DESIGN.md §5 C02',
         T),
 'C03': ('proptest fault injection on fragment trains (drop/dup/swap/bit flips/bursts <= 32 bits/truncation/field overwrite/splicing) judged by a reference receiver (RefRx) + reference CRC; exhaustive single-bit sweep over 200 small trains; exhaustive sweep of every announced total length 0..=63 (+ 8 large values) x tiny trains x label cases with a consistent CRC',
         "Exploration by generated-input search: every delivery at an end fragment is re-derived from the bytes actually received (length and CRC-32 recomputed independently); the single-bit sweep over small trains is complete. Evidence is 'N cases, M distinct non-trivial, these classes, no counter-example'; absence is not proven.",
         'DESIGN.md §5 C03, §7.3',
         T),
 'C04': ('stateful proptest: sender/receiver in lock step with content-tagged PDUs; receiver-alone histories judged against the RefRx effective-label register; exhaustive enumeration of every lock-step history of 1..=5 (thorough 1..=7) operations over an 18-operation alphabet',
         "Exploration by generated-input search: operation histories with failing calls, settings changes, resets and fragment traffic; every delivered PDU is matched to the sender's record. Evidence is 'N cases, M distinct non-trivial, these classes, no counter-example'; absence is not proven.",
         'DESIGN.md §5 C04',
         T),
 'C05': ('exhaustive enumeration of all byte strings <= 3 bytes x 12 receiver states and of 65536 headers x truncations x adversarial tails; proptest random/mutated buffers in random reachable states; long trains into > 65535-byte storages; (thorough) libFuzzer target rx_stream',
         "Exploration by generated-input search: the <= 3-byte space is closed in the thorough tier (quick closes lengths 0..=2 in all states and length 3 in two); the header sweep and the generated part sample the rest. Evidence is 'N cases, M distinct non-trivial, these classes, no counter-example'; absence is not proven.",
         'DESIGN.md §5 C05',
         T),
 'C06': ('proptest sender sessions; every call executed twice into complementary prefills (written-set observation); each emitted packet parsed by RefCodec and compared field by field; enumerated sessions for every PDU length 0..=65540 x label case x buffer profile (exhaustive in the thorough tier); (thorough) libFuzzer target tx_ops',
         "Exploration by generated-input search: buffers 0..=70000 on first and continuation calls, extension chains, hand-made contexts. Evidence is 'N cases, M distinct non-trivial, these classes, no counter-example'; absence is not proven.",
         'DESIGN.md §5 C06',
         T),
 'C07': ('exhaustive enumeration of all order-preserving merges of small train sets with one stray at every position + proptest random interleavings; reference slot-ownership model; exhaustive sweep of every ordered pair of fragment ids in memories of 128, 5 and 256 slots; closed starved-pool histories (every storage held by an open PDU, a further first fragment must be refused and harm nobody)',
         "Exploration by generated-input search: the enumerated family (2 PDUs x 2..4 fragments, 3 PDUs x 2..3 fragments, 12..16 stray kinds, every position; 2 / 2,3,4 slots) is complete; larger configurations are sampled. Evidence is 'N cases, M distinct non-trivial, these classes, no counter-example'; absence is not proven.",
         'DESIGN.md §5 C07',
         T),
 'C08': ('stateful proptest over provision/decap/reset/new_pdu histories on a ledger-wrapped memory with injected GseDecapMemory failures; conservation invariant after every call + final drain; exhaustive enumeration of every history of 1..=4 (thorough 1..=6) operations over a 24-operation alphabet on 2- and 3-slot receivers',
         "Exploration by generated-input search: buffer conservation is checked at every step of every history and at the end by draining the real memory through its public trait. Evidence is 'N cases, M distinct non-trivial, these classes, no counter-example'; absence is not proven.",
         'DESIGN.md §5 C08',
         T),
 'C09': ('proptest single calls after random prior states; buffer/state snapshot comparison and follow-up-packet differential twin; mandatory-error rules; exhaustive grids: encap over length x label x buffer, encap_frag over every (remaining 0..=4200, buffer 0..=4300) pair; (thorough) libFuzzer target tx_ops',
         "Exploration by generated-input search: PDU and buffer lengths up to 70000, every label/protocol type/context/extension-list class. Evidence is 'N cases, M distinct non-trivial, these classes, no counter-example'; absence is not proven.",
         'DESIGN.md §5 C09',
         T),
 'C10': ('proptest frames of real encapsulator packets; differential twin receivers (walker vs packet-by-packet); exhaustive enumeration of every frame of 1..=5 (thorough 1..=7) items over a 16-item alphabet x 5 padding lengths',
         "Exploration by generated-input search: frames with every rejection class, extension/signalling packets, padding and trailing garbage. Evidence is 'N cases, M distinct non-trivial, these classes, no counter-example'; absence is not proven.",
         'DESIGN.md §5 C10',
         T),
 'C11': ('proptest fragment trains incl. hand-made contexts at any position; partition/progress oracle on RefCodec-parsed packets; exhaustive continuation grid over every (remaining 0..=4200, buffer 0..=4300) pair',
         "Exploration by generated-input search: continuation buffers weighted to 0..=12 and to the end-packet threshold. Evidence is 'N cases, M distinct non-trivial, these classes, no counter-example'; absence is not proven.",
         'DESIGN.md §5 C11',
         T),
 'C12': ('exhaustive table-index sweep + exhaustive sweeps of every 16-bit total length, every 16-bit protocol type and every PDU length 0..=4200 x label length + proptest differential vs bitwise CRC-32/MPEG-2 reference + recording CRC calculators end to end',
         "Exploration by generated-input search: the sweep over every table index at every byte position of short messages is complete; long messages and end-to-end trailers are sampled. Evidence is 'N cases, M distinct non-trivial, these classes, no counter-example'; absence is not proven.",
         'DESIGN.md §5 C12',
         T),
 'C13': ('exhaustive enumeration of Extension::new over 65536 ids x 11 lengths; proptest extension chains end to end (RefCodec + real receiver with table-driven managers); undecodable combinations must be refused',
         "Exploration by generated-input search: the constructor space is closed; chains, fragmentation offsets and manager knowledge are sampled. Evidence is 'N cases, M distinct non-trivial, these classes, no counter-example'; absence is not proven.",
         'DESIGN.md §5 C13',
         T),
 'C14': ('exhaustive enumeration of all 65536 headers and all 4x4x4096 triples',
         'The whole input space is enumerated in both directions, so for this property the run is complete (exhaustive: true), not a sample.',
         'DESIGN.md §5 C14',
         T),
 'C15': ('exhaustive enumeration of all histories to depth 6 (quick) / 7 (thorough) over a 14-operation alphabet + proptest long histories (bursts > 255); audit of emitted label types',
         "Exploration by generated-input search: bounded-depth histories are complete; counter behaviour at 255 is reached by generated bursts. Evidence is 'N cases, M distinct non-trivial, these classes, no counter-example'; absence is not proven.",
         'DESIGN.md §5 C15, §7.5',
         T),
 'C16': ('stateful proptest: arbitrary poisoning prefix (valid, mutated, raw traffic; drained/over-provisioned memory; open contexts on every slot) then the recovery protocol with two probes; exhaustive enumeration of every poisoning prefix of 1..=4 (thorough 1..=6) steps over a 20-step alphabet x 6 probe variants',
         "Exploration by generated-input search: probes must be delivered byte-exact after any generated prefix. Evidence is 'N cases, M distinct non-trivial, these classes, no counter-example'; absence is not proven.",
         'DESIGN.md §5 C16',
         T),
 'C17': ('exhaustive enumeration of all operation sequences to depth 5 (quick) / 6-7 (thorough) over a 16-operation alphabet with aliasing ids and undersized caller-owned buffers + proptest long sequences; reference model (bag + slots) compared after every operation + final drain',
         "Exploration by generated-input search: bounded-depth sequences are complete for memories of 1..4 slots. Evidence is 'N cases, M distinct non-trivial, these classes, no counter-example'; absence is not proven.",
         'DESIGN.md §5 C17, §7.6',
         T),
 'C18': ('proptest differential: encap_preview vs encap and encap_frag_preview vs encap_frag on the same state and arguments; exhaustive grids over every (remaining 0..=4200, buffer 0..=4300) pair and over length x label x buffer for first calls',
         "Exploration by generated-input search: PDU/buffer lengths up to 70000, all protocol-type ranges, contexts at/after the PDU end. Evidence is 'N cases, M distinct non-trivial, these classes, no counter-example'; absence is not proven.",
         'DESIGN.md §5 C18',
         T),
 'C19': ('proptest over every packet of real sender sessions: peek alone / followed by bytes vs RefCodec reading vs decap of the same bytes; exhaustive sweep of every fragment id x every label value of the alphabets and special-value lists x packet shape',
         "Exploration by generated-input search: all label kinds incl. substituted re-use, extension chains, fragment ids. Evidence is 'N cases, M distinct non-trivial, these classes, no counter-example'; absence is not proven.",
         'DESIGN.md §5 C19',
         T),
 'C20': ("proptest round trip parse(generate(d)) == d, differential against RefCodec layout, against the encapsulator's bytes and against the decapsulator (constant CRC calculator); exhaustive sweep of every payload length 0..=4000 x packet kind x label case",
         "Exploration by generated-input search: four packet kinds x label kinds x payloads 0..=4000 x any CRC. Evidence is 'N cases, M distinct non-trivial, these classes, no counter-example'; absence is not proven.",
         'DESIGN.md §5 C20',
         T),
}
FUZZED = {'C01','C02','C03','C04','C05','C06','C07','C08','C09','C10','C11','C13','C15','C16','C17','C18','C19','C20'}
NOT_YET = {}

def main():
    props = [json.loads(l) for l in open(os.path.join(ROOT, "properties.jsonl"))]
    checks = []
    na = []
    for p in props:
        i = p["id"]
        if i in CHECKS:
            tech, text, ref, note = CHECKS[i]
            tech = tech.replace("; (thorough) libFuzzer target rx_stream", "").replace("; (thorough) libFuzzer target tx_ops", "")
            if i in FUZZED:
                tech += "; thorough tier adds a coverage-guided libFuzzer campaign (target part_fuzz, hand-written arbitrary::Unstructured decoder, same oracle)"
            checks.append({
                "property_id": i,
                "quick_cmd": f"./check {i} quick",
                "thorough_cmd": f"./check {i} thorough",
                "evidence_file": f"/verif/evidence/{i}.json",
                "replay_cmd_template": f"./check {i} --replay {{path}}",
                "engine": "gse_verif",
                "level_claimed": {"category": "exploration", "text": text, "design_ref": ref},
                "level_note": note,
                "technique": tech,
            })
        else:
            na.append({"property_id": i, "reason": NOT_YET.get(i, "check not implemented yet in this snapshot of /verif (work in progress; the technique applies, see DESIGN.md §5)")})
    m = {
        "version": 1,
        "setup_cmd": "./check setup",
        "hooks": {
            "guard": "viveris_dvb_gse_rust_verif",
            "enable": "none needed: all observation goes through the public API and the public traits (GseDecapMemory, CrcCalculator, MandatoryHeaderExtensionManager); no hook commits exist",
            "baseline_off_cmd": "cd /repo && cargo test --workspace --no-fail-fast --offline",
            "source_commits": [],
            "add_only": True,
        },
        "engines": [
            {"name": "part_fuzz", "path": "/verif/harness/fuzz", "serves_properties": sorted(FUZZED),
             "kind_free_text": "cargo-fuzz / libFuzzer target; VERIF_FUZZ_TARGET=<ID>/<part> selects the generated part whose case type the input bytes are decoded into; the part's own oracle judges the case; violations are saved as ordinary replay files and re-validated by vcheck --replay; driven by fuzz/run.sh in the thorough tiers"},
            {"name": "gse_verif", "path": "/verif/harness", "serves_properties": sorted(CHECKS.keys()),
             "kind_free_text": "Rust binary `vcheck`: proptest 1.11 used as a library (fixed seeds derived from VERIF_SEED, no persistence, 16 shards), exhaustive enumerators for closed sub-spaces, independent oracles (bitwise CRC, RefCodec, reference receiver/memory models, ledger memory), JSON replay files"},
        ],
        "checks": checks,
        "notes": "All checks: exit 0 held / 1 VIOLATION line + replay file / 2 inconclusive. VERIF_SEED selects the PRNG stream; VERIF_THREADS the shard count.",
        "not_applicable": na,
    }
    json.dump(m, open(os.path.join(ROOT, "MANIFEST.json"), "w"), indent=1)
    print("MANIFEST.json:", len(checks), "checks,", len(na), "not claimed")

if __name__ == "__main__":
    main()
