#!/usr/bin/env python3
"""Regenerates /verif/MANIFEST.json from the table below (single source of truth)."""
import json, os, sys
ROOT = os.path.dirname(os.path.dirname(os.path.abspath(__file__)))

# id -> (technique, level text, design ref, level note)
CHECKS = {
 "C12": ("exhaustive table-index sweep + proptest differential vs bitwise CRC-32/MPEG-2 reference + recording CRC calculators end to end",
         "Exhaustive over every table index at every byte position of short messages (closed space), plus generated-input differential testing against an independent bit-by-bit CRC and end-to-end checks of the trailer and of the arguments the crate passes to its calculator. Exploration: no counter-example in N generated cases; the sweep part is complete.",
         "DESIGN.md §5 C12",
         "Trusted: the 12-line bitwise reference (self-tested against check value 0x0376E6E7), RefCodec's reading of ETSI TS 102 606, proptest, rustc."),
 "C14": ("exhaustive enumeration of all 65536 headers and all 4x4x4096 triples",
         "The whole input space is enumerated in both directions, so for this property the run is complete (exhaustive: true), not a sample.",
         "DESIGN.md §5 C14",
         "Trusted: the harness's bit layout (S,E,LT,length) from ETSI TS 102 606; Debug names identify the crate-private packet-kind enum."),
}
NOT_YET = {}

def main():
    props = [json.loads(l) for l in open(os.path.join(ROOT, "properties.jsonl"))]
    checks = []
    na = []
    for p in props:
        i = p["id"]
        if i in CHECKS:
            tech, text, ref, note = CHECKS[i]
            checks.append({
                "property_id": i,
                "quick_cmd": f"./check {i} quick",
                "thorough_cmd": f"./check {i} thorough",
                "evidence_file": f"/verif/evidence/{i}.json",
                "replay_cmd_template": f"./check {i} --replay {{path}}",
                "engine": "gse_verif",
                "level_claimed": {"category": "exploration", "text": text, "design_ref": ref},
                "level_note": note,
                "technique": tech,
            })
        else:
            na.append({"property_id": i, "reason": NOT_YET.get(i, "check not implemented yet in this snapshot of /verif (work in progress; the technique applies, see DESIGN.md §5)")})
    m = {
        "version": 1,
        "setup_cmd": "./check setup",
        "hooks": {
            "guard": "viveris_dvb_gse_rust_verif",
            "enable": "none needed: all observation goes through the public API and the public traits (GseDecapMemory, CrcCalculator, MandatoryHeaderExtensionManager); no hook commits exist",
            "baseline_off_cmd": "cd /repo && cargo test --workspace --no-fail-fast --offline",
            "source_commits": [],
            "add_only": True,
        },
        "engines": [
            {"name": "gse_verif", "path": "/verif/harness", "serves_properties": sorted(CHECKS.keys()),
             "kind_free_text": "Rust binary `vcheck`: proptest 1.11 used as a library (fixed seeds derived from VERIF_SEED, no persistence, 16 shards), exhaustive enumerators for closed sub-spaces, independent oracles (bitwise CRC, RefCodec, reference receiver/memory models, ledger memory), JSON replay files"},
        ],
        "checks": checks,
        "notes": "All checks: exit 0 held / 1 VIOLATION line + replay file / 2 inconclusive. VERIF_SEED selects the PRNG stream; VERIF_THREADS the shard count.",
        "not_applicable": na,
    }
    json.dump(m, open(os.path.join(ROOT, "MANIFEST.json"), "w"), indent=1)
    print("MANIFEST.json:", len(checks), "checks,", len(na), "not claimed")

if __name__ == "__main__":
    main()
