#!/usr/bin/env python3
"""Markdown table of what the committed evidence files (quick tier) report."""
import json, glob, os
root = os.path.join(os.path.dirname(os.path.abspath(__file__)), "..", "evidence")
print("| Check | parts (kind: evaluations, * = exhaustive) | evaluations | distinct non-trivial | wall s |")
print("|---|---|---|---|---|")
for f in sorted(glob.glob(os.path.join(root, "C*.json"))):
    d = json.load(open(f))
    c = d["coverage"]
    parts = "; ".join(f"{p['part']} ({p['kind'][:3]}{'*' if p['exhaustive'] else ''}: {p['evaluations']:,})" for p in c.get("parts", []))
    print(f"| {d['property_id']} ({d['tier']}) | {parts} | {c['evaluations']:,} | {c['distinct_nontrivial']:,} | {d['wall_s']:.1f} |")
