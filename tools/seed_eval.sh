#!/bin/bash
# tools/seed_eval.sh <out-dir-of-agent e.g. /tmp/wt/out/C01/a> <seed-id e.g. C01a> <property>
# 1. confirms in a scratch worktree: patch applies, repo tests pass with it, demo fails with it and passes without
# 2. runs every quick check against the mutant applied to a scratch clone of /repo (snapshot of /verif built against it)
# 3. files it under /verif/seeded/<seed-id>/
set -u
SRC="$(realpath "$1")"; SID="$2"; PROP="$3"
# isolated snapshot (own clone of /repo at HEAD, own copy of the committed-or-not /verif) so that
# evaluation never touches /repo's working tree: SE_ROOT/{repo,verif}; refresh with SE_REFRESH=1
SE_ROOT="${SE_ROOT:-/tmp/se}"
if [ "${SE_REFRESH:-0}" = 1 ] || [ ! -d "$SE_ROOT/repo" ]; then
  rm -rf "$SE_ROOT"; mkdir -p "$SE_ROOT"
  git clone -q /repo "$SE_ROOT/repo" || exit 2
  rsync -a --exclude target --exclude replays --exclude corpus-run /verif/ "$SE_ROOT/verif/"
  sed -i "s#path = \"/repo\"#path = \"$SE_ROOT/repo\"#" "$SE_ROOT/verif/harness/Cargo.toml"
  (cd "$SE_ROOT/verif/harness" && cargo build --release --offline >/dev/null 2>&1) || { echo "snapshot build failed"; exit 2; }
fi
VER="$SE_ROOT/verify"
if [ ! -d "$VER" ]; then git clone -q /repo "$VER" || exit 2; fi
DEST=/verif/seeded/$SID
[ -f "$SRC/patch.diff" ] && [ -f "$SRC/demo.rs" ] || { echo "$SID: missing patch/demo"; exit 2; }
git -C $VER checkout -- . ; rm -f $VER/tests/demo.rs
cd $VER
if ! git apply "$SRC/patch.diff" 2>/dev/null; then echo "$SID: patch does not apply"; exit 2; fi
T1=$(cargo test --offline 2>&1 | grep -E "^test result" | awk '{p+=$4; f+=$6} END {print p"/"f}')
cp "$SRC/demo.rs" tests/demo.rs
D1=$(cargo test --offline --test demo 2>&1 | grep -E "^test result" | awk '{p+=$4; f+=$6} END {print p"/"f}')
git checkout -- src
D2=$(cargo test --offline --test demo 2>&1 | grep -E "^test result" | awk '{p+=$4; f+=$6} END {print p"/"f}')
rm -f tests/demo.rs
echo "$SID: suite-with-mutant pass/fail=$T1 demo-with-mutant=$D1 demo-without=$D2"
ok=1
[ "$T1" = "285/0" ] || ok=0
case "$D1" in */0) ok=0;; esac
case "$D2" in */0) ;; *) ok=0;; esac
[ -z "$D1" ] && ok=0
if [ $ok = 0 ]; then echo "$SID: NOT CONFIRMED"; exit 3; fi
# run the checks
cd "$SE_ROOT/repo" && [ -z "$(git status --porcelain)" ] || { echo "snapshot repo not clean"; exit 2; }
git apply "$SRC/patch.diff" || exit 2
caught=""
results="{"
for i in 01 02 03 04 05 06 07 08 09 10 11 12 13 14 15 16 17 18 19 20; do
  out=$(cd "$SE_ROOT/verif" && VERIF_ROOT="$SE_ROOT/root" ./check_mut C$i quick 2>&1); rc=$?
  sig=$(echo "$out" | grep -m1 "failure in part" | sed 's/.*failure in part //' | cut -c1-200 | tr '"' "'" | tr -d '\\')
  [ $rc = 1 ] && caught="$caught C$i"
  results="$results\"C$i\": {\"exit\": $rc, \"first_failure\": \"$sig\"},"
done
results="${results%,}}"
git checkout -- .
rm -rf "$SE_ROOT/root"
mkdir -p $DEST
if [ "$(realpath "$SRC")" != "$(realpath "$DEST")" ]; then
  cp "$SRC/patch.diff" "$SRC/demo.rs" $DEST/
  [ -f "$SRC/notes.md" ] && cp "$SRC/notes.md" $DEST/notes.md
fi
python3 - "$DEST/meta.json" "$SID" "$PROP" "$T1" "$D1" "$D2" "$caught" "$results" <<'PY'
import json, sys
path, sid, prop, t1, d1, d2, caught, results = sys.argv[1:]
notes = ""
try:
    notes = open(path.replace("meta.json", "notes.md")).read()
except Exception:
    pass
json.dump({
  "seed_id": sid, "breaks_property": prop,
  "source": "written by an independent sub-agent that was given only the text of the property and a scratch worktree of /repo (nothing from /verif)",
  "needs_to_manifest": "see notes.md (the sub-agent's description of the inputs / call sequence required)",
  "confirmed": {"repo_test_suite_with_mutant_pass/fail": t1, "demo_with_mutant_pass/fail": d1, "demo_without_mutant_pass/fail": d2,
                "how": "tools/seed_eval.sh: scratch clone of /repo at HEAD outside /repo and /verif; git apply patch.diff; cargo test --offline; cp demo.rs tests/; cargo test --offline --test demo; git checkout -- src; cargo test --offline --test demo"},
  "quick_checks_against_mutant": json.loads(results),
  "budget_percent_of_quick": int(__import__("os").environ.get("VERIF_SCALE", "100")),
  "caught_by": caught.split(),
}, open(path, "w"), indent=1)
PY
echo "$SID: caught by:$caught"
