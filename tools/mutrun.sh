#!/bin/bash
# tools/mutrun.sh <workers> [first] [last]     systematic mutation run (tooling for DESIGN §12.4, not a check)
# Every mutant of tools/mutgen.py is applied to a scratch clone of /repo (never to /repo), filtered by the
# repository's own unit + end-to-end tests, and then given to the quick checks (a quarter of their budget,
# most relevant check first) until one reports a violation. Survivors are re-run at the full quick budget.
# Results: $MUT_ROOT/results/<n>.json ; summary with tools/mutsummary.py
set -u
W="${1:-4}"; FIRST="${2:-0}"; LAST="${3:-}"
ROOT="$(cd "$(dirname "${BASH_SOURCE[0]}")/.." && pwd)"
MUT_ROOT="${MUT_ROOT:-/tmp/mut}"
T="${MUT_THREADS:-4}"
mkdir -p "$MUT_ROOT/results"
export CARGO_NET_OFFLINE=true CARGO_TERM_COLOR=never
N=$(python3 "$ROOT/tools/mutgen.py" /repo --count | awk '{print $1}')
[ -n "$LAST" ] || LAST=$((N-1))

order_for() {
  case "$1" in
    src/gse_encap/*) echo "C06 C01 C02 C15 C18 C09 C11 C13 C20 C12 C04 C19 C03 C05 C07 C08 C10 C14 C16 C17";;
    src/gse_decap/gse_decap_memory/*) echo "C17 C07 C08 C03 C04 C05 C16 C19 C10 C01 C02 C06 C09 C11 C12 C13 C14 C15 C18 C20";;
    src/gse_decap/*) echo "C05 C03 C04 C07 C08 C10 C16 C19 C13 C01 C20 C02 C12 C06 C09 C11 C14 C15 C17 C18";;
    src/crc.rs) echo "C12 C03 C06 C01 C02 C04 C05 C07 C08 C09 C10 C11 C13 C14 C15 C16 C17 C18 C19 C20";;
    src/header_extension/*) echo "C13 C06 C05 C19 C11 C12 C01 C02 C03 C04 C07 C08 C09 C10 C14 C15 C16 C17 C18 C20";;
    src/utils/*) echo "C20 C14 C01 C02 C03 C04 C05 C06 C07 C08 C09 C10 C11 C12 C13 C15 C16 C17 C18 C19";;
    src/label/*) echo "C19 C01 C20 C04 C02 C03 C05 C06 C07 C08 C09 C10 C11 C12 C13 C14 C15 C16 C17 C18";;
    *) echo "C06 C01 C05 C03 C14 C20 C02 C04 C07 C08 C09 C10 C11 C12 C13 C15 C16 C17 C18 C19";;
  esac
}

worker() {
  local k="$1" D="$MUT_ROOT/w$1"
  if [ ! -d "$D/repo" ]; then
    mkdir -p "$D"; git clone -q /repo "$D/repo" || return 2
    rsync -a --exclude target --exclude replays --exclude corpus-run --exclude seeded "$ROOT/" "$D/verif/"
    sed -i "s#path = \"/repo\"#path = \"$D/repo\"#" "$D/verif/harness/Cargo.toml"
  fi
  mkdir -p "$D/root"; cp "$ROOT/known_findings.txt" "$D/root/"; rm -rf "$D/root/regress"; cp -r "$ROOT/regress" "$D/root/"
  local i
  for ((i=FIRST+k; i<=LAST; i+=W)); do
    [ -f "$MUT_ROOT/results/$i.json" ] && continue
    git -C "$D/repo" checkout -q -- .
    local desc; desc=$(python3 "$ROOT/tools/mutgen.py" "$D/repo" --apply "$i") || continue
    local file; file=$(echo "$desc" | python3 -c "import json,sys; print(json.load(sys.stdin)['file'])")
    local status="" by="" sig="" notes=""
    # the repository's tests first (cheap, kills most mutants), the harness is only built for the others
    if ! (cd "$D/repo" && timeout 600 cargo test --offline --lib --tests >"$D/test.log" 2>&1); then
      if grep -q "could not compile" "$D/test.log"; then status="does-not-compile"; else status="killed-by-repo-tests"; fi
    elif ! (cd "$D/verif/harness" && cargo build --release --offline >"$D/build.log" 2>&1); then
      status="does-not-compile"
    else
      for scale in ${MUT_SCALES:-25 100}; do
        for id in $(order_for "$file"); do
          out=$(cd "$D/verif" && ulimit -v 16000000 && VERIF_ROOT="$D/root" VERIF_SCALE=$scale VERIF_THREADS=$T timeout --signal=KILL 400 "$D/verif/harness/target/release/vcheck" "$id" quick 2>&1); rc=$?
          if [ $rc = 1 ]; then
            status="killed"; by="$id"
            sig=$(echo "$out" | grep -m1 "failure in part" | sed 's/.*failure in part //' | cut -c1-160 | tr '"' "'" | tr -d '\\')
            break 2
          elif [ $rc = 137 ]; then status="hang"; by="$id"; break 2
          elif [ $rc != 0 ]; then notes="$notes $id:exit$rc@$scale"
          fi
        done
      done
      if [ -z "$status" ]; then
        if (cd "$D/repo" && timeout 600 cargo test --offline --doc >"$D/doc.log" 2>&1); then status="survived"; else status="killed-by-repo-doctests"; fi
      fi
    fi
    python3 - "$MUT_ROOT/results/$i.json" "$i" "$desc" "$status" "$by" "$sig" "$notes" <<'PY'
import json, sys
path, i, desc, status, by, sig, notes = sys.argv[1:]
d = json.loads(desc); d.pop("new", None)
json.dump({"n": int(i), "mutant": d, "status": status, "by": by, "signature": sig, "notes": notes.strip()}, open(path, "w"))
PY
    rm -rf "$D/root/replays" "$D/root/evidence"
  done
  git -C "$D/repo" checkout -q -- .
}

for ((k=0; k<W; k++)); do worker $k & done
wait
echo "mutation run finished: $(ls "$MUT_ROOT/results" | wc -l) results"
