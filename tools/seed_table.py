#!/usr/bin/env python3
"""Prints the sensitivity table (markdown) from /verif/seeded/*/meta.json."""
import json, glob, os
rows = []
for d in sorted(glob.glob(os.path.join(os.path.dirname(__file__), "..", "seeded", "*"))):
    m = os.path.join(d, "meta.json")
    if not os.path.exists(m):
        continue
    j = json.load(open(m))
    note = ""
    try:
        txt = open(os.path.join(d, "patch.diff")).read()
        files = sorted({l[6:].strip() for l in txt.splitlines() if l.startswith("+++ b/")})
        note = ", ".join(f.replace("src/", "") for f in files)
    except Exception:
        pass
    own = j["breaks_property"]
    caught = j.get("caught_by", [])
    first = j["quick_checks_against_mutant"].get(own, {}).get("first_failure", "")
    sig = first.split("]")[0].split("[")[-1] if "[" in first else ""
    rows.append((j["seed_id"], own, note, "yes" if own in caught else "no", " ".join(caught) or "—", sig, j.get("summary", "")))
print("| Seed | Property | File touched | Caught by its own check | All quick checks that fail | Signature reported by its own check | What it is |")
print("|---|---|---|---|---|---|---|")
for r in rows:
    print("| " + " | ".join(r) + " |")
print()
n = len(rows)
own = sum(1 for r in rows if r[3] == "yes")
anyc = sum(1 for r in rows if r[4] != "—")
print(f"{n} seeded changes: {own} caught by the check of the property they were written against, {anyc} caught by at least one check.")
