#!/bin/bash
# tools/mutant.sh <patch-file | -e 'sed-expr' file> -- <ID> [<ID>...]
# Applies a mutation to /repo (working tree only), checks that the repo's own tests still
# pass, runs the quick checks given, and restores /repo.  For sensitivity testing only.
set -u
cd /repo || exit 2
if [ -n "$(git status --porcelain)" ]; then echo "/repo not clean"; exit 2; fi
if [ "$1" = "-e" ]; then
  sed -i -E "$2" "$3" || exit 2
  shift 3
else
  git apply "$1" || { echo "patch does not apply"; exit 2; }
  shift
fi
[ "$1" = "--" ] && shift
if [ -z "$(git status --porcelain)" ]; then echo "MUTANT: no change"; exit 2; fi
git --no-pager diff --stat | tail -1
T=$(cargo test --offline 2>&1 | grep -E "^test result" | awk '{p+=$4; f+=$6} END {print p" passed "f" failed"}')
echo "repo tests: $T"
for id in "$@"; do
  out=$(cd /verif && VERIF_ROOT=/tmp/mutant_verif_$$ ./check_mut "$id" quick 2>&1)
  rc=$?
  echo "== $id exit $rc: $(echo "$out" | grep -E "failure in part" | head -1 | cut -c1-300)"
done
git checkout -- . 
rm -rf /tmp/mutant_verif_$$
