#!/usr/bin/env python3
"""tools/mut_verdicts.py [results-dir]   writes tools/mut_survivors.json: a hand-made verdict for every
surviving mutant of the last tools/mutrun.sh run (keyed file:line:col:from->to), from the rules below.
A survivor without a rule stays 'NOT YET CLASSIFIED' in the DESIGN table."""
import json, glob, os, sys
d = next((a for a in sys.argv[1:] if not a.startswith("--")), "/tmp/mut/results")
DEAD = "dead code: the line is never executed (12.6, coverage list), no input can show the difference"
MALFORMED = ("not observable through the listed properties: the label memory is (not) cleared after *malformed* input; the "
             "properties only constrain re-use resolution after well-formed start/complete packets, resets and padding "
             "(C04 assumption: after anything malformed the reference does not claim to know the label in force)")
SAME = "equivalent: when both sides are equal the two branches compute the same values"
RULES = {
    # (file, line) or (file, line, "from->to")
    ("src/gse_decap/mod.rs", 331): MALFORMED + " — here a buffer shorter than a header",
    ("src/gse_decap/mod.rs", 349): MALFORMED + " — here a truncated packet",
    ("src/gse_decap/mod.rs", 390): "equivalent: protocol type 0x0600 enters the extension walker, whose loop condition (< 0x0600) is false at once: no extension, same protocol type",
    ("src/gse_decap/mod.rs", 596): "equivalent: as line 390, for first fragments",
    ("src/gse_decap/mod.rs", 415): MALFORMED + " — here an extension chain running past the packet",
    ("src/gse_decap/mod.rs", 650): MALFORMED + " — here an extension chain running past the packet (first fragment)",
    ("src/gse_decap/mod.rs", 654): MALFORMED + " — here a first fragment dropped for an unknown mandatory extension, which the reference cannot parse either (the size of an unknown extension is not known)",
    ("src/gse_decap/mod.rs", 419): MALFORMED + " — here a complete packet dropped for an unknown mandatory extension, which the reference cannot parse either",
    ("src/gse_decap/mod.rs", 669): "not observable through the listed properties: a first fragment whose announced total length equals its own payload is inconsistent either way; whether such a packet displaces the reassembly in progress is left open (12.3 rule 13) and the train it opens can never pass the length check at its end fragment",
    ("src/gse_decap/mod.rs", 689): "allowed by C04's statement: the first fragment refused for a memory reason is still the nearest preceding start packet, and the label memory then holds exactly the label it carried (set before the memory is asked)",
    ("src/gse_decap/mod.rs", 697): "allowed by C04's statement: as line 689, for a storage that is too small",
    ("src/gse_decap/mod.rs", 727): "not observable through the listed properties: an intermediate fragment without payload is accepted instead of rejected; it adds nothing to the reassembly, so every delivery is unchanged (C03), and no property obliges the receiver to reject it (C11 forbids the *sender* to emit one)",
    ("src/gse_decap/mod.rs", 749): "not observable through the listed properties: an accumulated length of exactly 65535 is refused one fragment earlier; no valid PDU is that long (2 + label + PDU <= 65535), so the train could not have been delivered anyway, and the storage is given back on both paths",
    ("src/gse_decap/mod.rs", 780): MALFORMED + " — here an end fragment too short for its own fields",
    ("src/gse_decap/mod.rs", 1007): "equivalent: an optional extension is always followed by a 2-byte type field, so 'data ends exactly at the end' fails the next bound check with the same error",
    ("src/gse_decap/mod.rs", 466): "equivalent: the arm is entered only when the label memory is already None",
    ("src/gse_decap/mod.rs", 625): "equivalent: the arm is entered only when the label memory is already None",
    ("src/gse_decap/mod.rs", 577): MALFORMED + " — here a first fragment too short for its own header fields",
    ("src/gse_decap/mod.rs", 728): MALFORMED + " — here an intermediate fragment without payload",
    ("src/gse_decap/mod.rs", 497): "not observable through the listed properties: the peek function answers ErrSizeBuffer instead of reading the header of a 2-byte buffer; C19 quantifies over whole packets from the encapsulator (>= 3 bytes), C05 only requires the peek to be total",
    ("src/gse_decap/mod.rs", 501): "equivalent: the second header byte only carries the low bits of the GSE length, which the peek function does not use",
    ("src/gse_decap/mod.rs", 987): "equivalent: a non-final extension is always followed by a 2-byte type field, so 'data ends exactly at the end' fails the next bound check with the same error",
    ("src/gse_encap/mod.rs", 158): "not a violation of a listed property: a new encapsulator starts with a maximum of one consecutive re-use; it substitutes less than before, which no property forbids",
    ("src/gse_encap/mod.rs", 159): "equivalent: the consecutive counter is only read when a maximum is configured, and configuring one resets it",
    ("src/gse_encap/mod.rs", 231): "not a violation of a listed property: after N consecutive re-uses the counter is never reset, so the sender stops substituting for good; fewer re-uses, which no property forbids",
    ("src/gse_encap/mod.rs", 188): "not a violation of a listed property: enable_re_use_label after enable_..._with_max_consecutive(N) keeps the limit N; fewer re-uses, which no property forbids",
    ("src/gse_encap/mod.rs", 199): "not a violation of a listed property: the consecutive counter starts at 1 / at a stale value after a maximum is configured; the sender writes a full label earlier, never later (C15 bounds re-use from above only)",
    ("src/gse_encap/mod.rs", 224): "equivalent: with no maximum configured the commit path falls through to the same label-memory update; what is written was already decided by peek_label_re_use",
    ("src/gse_encap/mod.rs", 576): "equivalent: a 3-byte buffer enters the fragment branch, finds no room for a payload byte and returns the same ErrorSizeBuffer",
    ("src/gse_encap/mod.rs", 164): "API outside the listed properties: set_crc_calculator (C12 injects its recording calculators through the constructors; with the default unit-struct calculator the setter has nothing to change)",
    ("src/gse_encap/mod.rs", 178): "equivalent: the counters are dead while re-use is disabled and both enabling functions reset them",
    ("src/gse_encap/mod.rs", 179): "equivalent: the counters are dead while re-use is disabled and both enabling functions reset them",
    ("src/gse_encap/mod.rs", 187): "not a violation of a listed property: enable_re_use_label no longer enables, i.e. the sender substitutes less; no property obliges the sender to substitute (C01 assumption, C15 bounds re-use from above only)",
    ("src/gse_encap/mod.rs", 189): "equivalent: the consecutive counter is only read when a maximum is configured, and enable_re_use_label configures none",
    ("src/gse_encap/mod.rs", 197): "not a violation of a listed property: enable_re_use_label_with_max_consecutive no longer enables; the sender substitutes less, which no property forbids",
    ("src/gse_encap/mod.rs", 213): "not a violation of a listed property: with a maximum N configured the sender now writes N full labels and then one re-use label; never more than N consecutive re-uses, the first packet after a reset still carries its label (C15 bounds re-use from above only)",
    ("src/gse_encap/mod.rs", 583): SAME,
    ("src/gse_encap/mod.rs", 988): SAME + " (preview twin of line 583)",
    ("src/gse_encap/mod.rs", 995): SAME + " (preview twin)",
    ("src/gse_encap/mod.rs", 645): "not observable through the listed properties: protocol type exactly 0x0100 is refused either way, only the error kind differs (C09/C13 demand a refusal, not a kind)",
    ("src/gse_encap/mod.rs", 688): "not a violation of a listed property: encap_ext fragments where a complete packet would just fit (exact-fit buffer / GSE length exactly 4095); the completeness clause of C01 is about encap, and the fragments it emits instead are well-formed and round-trip (C06, C13)",
    ("src/gse_encap/mod.rs", 712): "not a violation of a listed property: first fragments of encap_ext are filled 4 bytes short of the 4095 limit in buffers above 4093 bytes; legal packets, and the progress bound of C02 is about encap",
    ("src/gse_decap/gse_decap_memory/mod.rs", 79): "not observable through the listed properties: the free list holds slots + 1 instead of slots + 2 buffers; C17 speaks of 'when the free list is full' without fixing the capacity, and the reference model takes the capacity from the memory under test by probing (DESIGN 12.3)",
}
for ln in (535, 537, 539, 541, 542, 543, 544, 545, 556):
    RULES[("src/gse_decap/mod.rs", ln)] = DEAD + " (second 'intermediate or end packet' test of the peek function)"
for ln in (458, 459, 462, 463, 617, 618, 621, 622):
    RULES[("src/gse_decap/mod.rs", ln)] = DEAD + " (the decapsulator never stores a broadcast / re-use label as last label)"

out = {}
missing = []
for f in glob.glob(os.path.join(d, "*.json")):
    r = json.load(open(f))
    if r["status"] not in ("survived", "hang", "killed-by-repo-doctests"):
        continue
    m = r["mutant"]
    key = f"{m['file']}:{m['line']}:{m['col']}:{m['from'].strip()}->{m['to'].strip()}"
    v = RULES.get((m["file"], m["line"], f"{m['from'].strip()}->{m['to'].strip()}")) or RULES.get((m["file"], m["line"]))
    if v:
        out[key] = v
    else:
        missing.append((r["n"], key))
json.dump(out, open(os.path.join(os.path.dirname(os.path.abspath(__file__)), "mut_survivors.json"), "w"), indent=1, sort_keys=True)
print(len(out), "verdicts written;", len(missing), "survivors without a rule:")
for n, k in sorted(missing):
    print("  #%d %s" % (n, k))
