#!/bin/bash
# Re-evaluates every seeded change against the current /verif (snapshot under $SE_ROOT), first with
# a quarter of the quick budgets (VERIF_SCALE=25), then at full budget for the seeds whose own check
# did not fire in the first pass.  Sources: /tmp/wt/out{,2,3,4}/Cxx/{a,b} (kept only for the session)
# or /verif/seeded/<id>/ (patch.diff + demo.rs), whichever exists.
set -u
cd "$(dirname "${BASH_SOURCE[0]}")/.."
export SE_ROOT="${SE_ROOT:-/tmp/se_final}"
first=1
ids=$(ls seeded | sort)
for sid in $ids; do
  prop=${sid:0:3}
  SE_REFRESH=$first VERIF_SCALE=25 tools/seed_eval.sh "seeded/$sid" "$sid" "$prop" 2>&1 | tail -1
  first=0
done
echo "--- second pass (full budget) for seeds not caught by their own check"
for sid in $ids; do
  prop=${sid:0:3}
  if ! python3 -c "import json,sys; j=json.load(open('seeded/$sid/meta.json')); sys.exit(0 if '$prop' in j['caught_by'] else 1)"; then
    VERIF_SCALE=100 tools/seed_eval.sh "seeded/$sid" "$sid" "$prop" 2>&1 | tail -1
  fi
done
python3 tools/seed_annotate.py
