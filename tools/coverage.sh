#!/bin/bash
# tools/coverage.sh [tier] [ids...]   source-line coverage of /repo/src reached by the checks (tooling, not a check)
# Builds the harness with -C instrument-coverage (nightly, llvm-tools) in a scratch target dir outside /verif,
# runs the requested checks with VERIF_ROOT in scratch (committed evidence is not touched), merges the
# profiles and prints per-file line coverage plus every uncovered non-test line of /repo/src.
set -u
TIER="${1:-quick}"; shift || true
IDS="${*:-C01 C02 C03 C04 C05 C06 C07 C08 C09 C10 C11 C12 C13 C14 C15 C16 C17 C18 C19 C20}"
ROOT="$(cd "$(dirname "${BASH_SOURCE[0]}")/.." && pwd)"
SCR="${COV_ROOT:-/tmp/verif_cov}"
BIN="$(rustc +nightly --print sysroot)/lib/rustlib/x86_64-unknown-linux-gnu/bin"
rm -rf "$SCR"; mkdir -p "$SCR/prof" "$SCR/root"
cp "$ROOT/known_findings.txt" "$SCR/root/"; cp -r "$ROOT/regress" "$SCR/root/"
cd "$ROOT/harness" || exit 2
export CARGO_NET_OFFLINE=true
LLVM_PROFILE_FILE="$SCR/prof/build-%p.profraw" RUSTFLAGS="-C instrument-coverage" cargo +nightly build --release --offline --target-dir "$SCR/target" >"$SCR/build.log" 2>&1 \
  || { echo "coverage build failed"; tail -20 "$SCR/build.log"; exit 2; }
for id in $IDS; do
  LLVM_PROFILE_FILE="$SCR/prof/$id-%p.profraw" VERIF_ROOT="$SCR/root" VERIF_SCALE="${VERIF_SCALE:-10}" VERIF_THREADS="${VERIF_THREADS:-1}" \
    "$SCR/target/release/vcheck" "$id" "$TIER" >"$SCR/$id.log" 2>&1
  echo "$id exit $?"
done
"$BIN/llvm-profdata" merge -sparse "$SCR"/prof/*.profraw -o "$SCR/all.profdata" || exit 2
"$BIN/llvm-cov" report "$SCR/target/release/vcheck" -instr-profile="$SCR/all.profdata" \
  $(find /repo/src -name '*.rs' ! -name 'tests.rs' ! -path '*/tests/*') 2>/dev/null | cut -c1-200
"$BIN/llvm-cov" show "$SCR/target/release/vcheck" -instr-profile="$SCR/all.profdata" \
  $(find /repo/src -name '*.rs' ! -name 'tests.rs' ! -path '*/tests/*') 2>/dev/null \
  | awk '/^\/repo\/src.*:$/ {file=$0} /^ +[0-9]+\| +0\|/ {print file " " $0}' > "$SCR/uncovered.txt"
echo "uncovered lines: $(wc -l < "$SCR/uncovered.txt") (in $SCR/uncovered.txt)"
