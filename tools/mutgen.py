#!/usr/bin/env python3
"""tools/mutgen.py <repo> [--list | --apply <n> | --count]
Systematic single-token mutants of the non-test sources of the crate (tooling for the sensitivity
measurement of DESIGN §12.4; not a check). Deterministic enumeration, one mutant = (file, line, col, op).

Operators:
  rel   <  <=  >  >=  ==  !=      each replaced by its boundary neighbour and by its negation
  arith ' + ' <-> ' - ',  '+= ' <-> '-= '
  bool  ' && ' <-> ' || '
  lit   integer literals (decimal / hex) in expressions: n -> n+1 and n -> n-1 (n > 0)
  del   statements 'self.<field> = ...;' / '<x>.<call>(...);' on one line: removed
  cond  'if <c> {'  ->  'if false && (<c>) {'   (guard never taken)
"""
import os, re, sys, json

FILES = ["src/crc.rs", "src/gse_standard.rs", "src/gse_decap/mod.rs", "src/gse_encap/mod.rs",
         "src/header_extension/mod.rs", "src/label/mod.rs", "src/utils/mod.rs",
         "src/gse_decap/gse_decap_memory/mod.rs"]

REL = {" < ": [" <= ", " >= "], " <= ": [" < ", " > "], " > ": [" >= ", " <= "], " >= ": [" > ", " < "],
       " == ": [" != "], " != ": [" == "]}
SWAP = {" + ": [" - "], " - ": [" + "], " += ": [" -= "], " -= ": [" += "], " && ": [" || "], " || ": [" && "]}
LIT = re.compile(r"(?<![\w.])(0x[0-9A-Fa-f_]+|\d[\d_]*)(?![\w.])")


def code_part(line):
    """text before a // comment (string literals in this crate never contain //)"""
    i = line.find("//")
    return line if i < 0 else line[:i]


def mutants(repo):
    out = []
    for f in FILES:
        lines = open(os.path.join(repo, f)).read().split("\n")
        in_test = False
        for ln, line in enumerate(lines):
            s = line.strip()
            if s.startswith("#[cfg(test)]"):
                continue
            if s == "#[test]":
                in_test = True  # crc.rs keeps its unit tests at the end of the file
            if re.match(r"^(pub )?mod \w+;", s) or len(re.findall(r"0x[0-9a-fA-F]{8}", s)) >= 4:
                continue  # module declarations; rows of the CRC table (each pinned by the repository's tests)
            if s.startswith("/*") or s.startswith("*"):
                continue  # block comments
            if in_test or not s or s.startswith("//") or s.startswith("#[") or s.startswith("use ") or s.startswith("pub use "):
                continue
            code = code_part(line)
            if "unreachable!" in code or "todo!" in code or "panic!" in code or "assert" in code:
                continue
            for table, kind in ((REL, "rel"), (SWAP, "swap")):
                for tok, reps in table.items():
                    start = 0
                    while True:
                        i = code.find(tok, start)
                        if i < 0:
                            break
                        start = i + 1
                        # skip generic / arrow contexts: '->' '=>' '<<' '>>'
                        ctx = code[max(0, i - 1):i + len(tok) + 1]
                        if "->" in ctx or "=>" in ctx or "<<" in ctx or ">>" in ctx:
                            continue
                        for r in reps:
                            out.append({"file": f, "line": ln + 1, "col": i, "kind": kind, "from": tok, "to": r,
                                        "new": line[:i] + r + line[i + len(tok):]})
            for m in LIT.finditer("" if '"' in code else code):
                txt = m.group(1)
                try:
                    v = int(txt.replace("_", ""), 0)
                except ValueError:
                    continue
                # array sizes / shifts by type width are syntax more than behaviour: still mutate, compile errors are dropped
                for nv in (v + 1, v - 1):
                    if nv < 0:
                        continue
                    rep = hex(nv) if txt.lower().startswith("0x") else str(nv)
                    out.append({"file": f, "line": ln + 1, "col": m.start(1), "kind": "lit", "from": txt, "to": rep,
                                "new": line[:m.start(1)] + rep + line[m.end(1):]})
            if re.match(r"^\s*self\.[\w.]+ (=|\+=|-=) [^;]*;\s*$", code) or re.match(r"^\s*[\w.]+\.(clear|push|insert|remove|truncate|extend_from_slice|copy_from_slice)\([^;]*\);\s*$", code):
                out.append({"file": f, "line": ln + 1, "col": 0, "kind": "del", "from": s, "to": "",
                            "new": re.match(r"^\s*", line).group(0) + "// (statement removed)"})
            m = re.match(r"^(\s*(?:\} else )?if )(?!let )(.*) \{\s*$", code)
            if m:
                out.append({"file": f, "line": ln + 1, "col": 0, "kind": "cond", "from": m.group(2), "to": "false",
                            "new": f"{m.group(1)}false && ({m.group(2)}) {{"})
    return out


def main():
    repo = sys.argv[1]
    ms = mutants(repo)
    if "--count" in sys.argv:
        from collections import Counter
        print(len(ms), dict(Counter(m["kind"] for m in ms)), dict(Counter(m["file"] for m in ms)))
    elif "--list" in sys.argv:
        for i, m in enumerate(ms):
            print(i, json.dumps(m))
    elif "--apply" in sys.argv:
        n = int(sys.argv[sys.argv.index("--apply") + 1])
        m = ms[n]
        p = os.path.join(repo, m["file"])
        lines = open(p).read().split("\n")
        lines[m["line"] - 1] = m["new"]
        open(p, "w").write("\n".join(lines))
        print(json.dumps(m))


if __name__ == "__main__":
    main()
